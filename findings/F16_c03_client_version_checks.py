"""F16 (C03): client side. (a) a client limited to maxVersion=(3,1) accepted a
ServerHello announcing (3,3) because the 'too new' check also required the
version to be absent from settings.versions; (b) a ServerHello with legacy
version (3,1) plus a supported_versions extension selecting TLS 1.3 passed the
version checks as TLS 1.0 and was then processed by the TLS 1.3 code path.
Drives the real _handshakeClientAsyncHelper.  Exit 1 if present."""
import sys
sys.path.insert(0, "/repo")
sys.path.insert(0, "/verif")
from models.hello import (client_conn, run_client_hello, sh_bytes,
                          hello_stubs, raw_ext)
from models.conn import record
from lib.framework import patched
from symx.core import Ctx, ConcreteCtx
from tlslite.handshakesettings import HandshakeSettings
from tlslite.constants import GroupName
import tlslite.extensions as X

Ctx.cur = ConcreteCtx()
bad = []
with patched(hello_stubs()):
    s = HandshakeSettings()
    s.minVersion = s.maxVersion = (3, 1)
    s.keyShares = ["secp256r1"]
    conn = client_conn()
    out = run_client_hello(conn, s, lambda ch: record(22, sh_bytes(
        (3, 3), bytearray(32), bytearray(b"x" * 32), 0xc019)))
    if out["kind"] not in ("alert", "remote-alert"):
        bad.append("maxVersion (3,1) but went on with %s" % (conn.version,))
    s = HandshakeSettings()
    s.keyShares = ["secp256r1"]
    conn = client_conn()
    exts = [X.SrvSupportedVersionsExtension().create((3, 4)),
            X.ServerKeyShareExtension().create(X.KeyShareEntry().create(
                GroupName.secp256r1, bytearray(b"\x04" + b"\x02" * 64)))]
    out = run_client_hello(conn, s, lambda ch: record(22, sh_bytes(
        (3, 1), bytearray(32), ch.session_id, 0xc019, exts)))
    if out["kind"] == "tls13":
        bad.append("ServerHello legacy version (3,1) + supported_versions "
                   "(3,4): TLS 1.3 flow entered with connection version %s"
                   % (conn.version,))
print("\n".join(bad) or "ok")
sys.exit(1 if bad else 0)
