"""Proxy list for the codec call tree (messages.py, extensions.py, codec.py)."""
from symx.core import mk_bytearray, sym_from_bytes, sym_range, \
    is_concrete_mode, SymBytes
from symx.shims import sym_pack, SymDict, sym_int_to_bytes
import tlslite.utils.cryptomath as cryptomath

import tlslite.messages as msgs
import tlslite.extensions as exts
import tlslite.utils.codec as codec
import tlslite.constants as consts
import tlslite.x509 as x509mod
import tlslite.x509certchain as x509cc
import tlslite.utils.asn1parser as asn1


_ORIG_TOSTR = consts.TLSEnum.__dict__["toStr"].__func__
_ORIG_TOREPR = consts.TLSEnum.__dict__["toRepr"].__func__


def _has_sym(value):
    from symx.core import SymInt, SymBool
    if isinstance(value, (SymInt, SymBool)):
        return True
    if isinstance(value, (tuple, list)):
        return any(_has_sym(v) for v in value)
    return False


def _tostr(cls, value, blacklist=None):
    """formatting stub: the NAME of a symbolic enum value is only ever used
    in messages; concrete values keep the real behaviour (SignatureScheme /
    HashAlgorithm.toRepr carry meaning in the handshake code)"""
    if _has_sym(value):
        return "<%s>" % cls.__name__
    if blacklist is None:
        return _ORIG_TOSTR(cls, value)
    return _ORIG_TOSTR(cls, value, blacklist)


def _torepr(cls, value, blacklist=None):
    if _has_sym(value):
        return "<%s>" % cls.__name__
    if blacklist is None:
        return _ORIG_TOREPR(cls, value)
    return _ORIG_TOREPR(cls, value, blacklist)


class OpaqueX509(object):
    """certificate bodies are opaque blobs for the codec obligations: X.509
    decoding is outside the claim (DESIGN 5/C15)"""

    def __init__(self):
        self.bytes = bytearray(0)
        self.certAlg = "rsa"

    def parseBinary(self, b):
        self.bytes = b
        return self

    def writeBytes(self):
        return self.bytes


def codec_proxies():
    T = exts.TLSExtension
    return [
        (msgs, "bytearray", mk_bytearray),
        (exts, "bytearray", mk_bytearray),
        (codec, "bytearray", mk_bytearray),
        (codec, "bytes_to_int", sym_from_bytes),
        (codec, "pack", sym_pack),
        (codec, "range", sym_range),
        (msgs, "range", sym_range),
        (exts, "range", sym_range),
        (cryptomath, "bytes_to_int", sym_from_bytes),
        (cryptomath, "int_to_bytes", sym_int_to_bytes),
        (msgs, "X509", OpaqueX509),
        (T, "_universalExtensions", SymDict(T._universalExtensions)),
        (T, "_serverExtensions", SymDict(T._serverExtensions)),
        (T, "_certificateExtensions", SymDict(T._certificateExtensions)),
        (T, "_hrrExtensions", SymDict(T._hrrExtensions)),
        (consts.TLSEnum, "toStr", classmethod(_tostr)),
        (consts.TLSEnum, "toRepr", classmethod(_torepr)),
    ]


CODEC_ASSUMES = [
    "proxies: bytearray->SymBytes in messages/extensions/codec, "
    "bytes_to_int->bit-vector concat, struct.pack->range-checked to_bytes, "
    "extension registries->SymDict (one path per registered type + 'other'), "
    "TLSEnum.toStr/toRepr->constant string (formatting is not the subject), "
    "range->fork per iteration, [x]*n->grow on demand, int_to_bytes->same "
    "code without the gmpy int() coercion, messages.X509->opaque blob "
    "(X.509 decoding outside the claim)",
]
