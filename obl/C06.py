"""C06 - handshake messages are accepted only in the order the protocol allows.

The gate every received message passes is TLSRecordLayer._getMsg(expected
content types, expected handshake types, constructor argument); the per-flow
expectation sequences are the arguments the handshake code passes to it."""
import ast
import socket

from lib.framework import obligation
from symx.core import (SymInt, SymBool, SymBytes, AND, OR, NOT, IFF, IMPLIES,
                       seq_eq, assume, is_concrete_mode, ite, PathAbort,
                       Unsupported)
from models.fixtures import newbuf
from models.conn import (conn_proxies, CONN_ASSUMES, make_conn, record,
                         FaultSock, split_records)

import tlslite.tlsrecordlayer as trl
import tlslite.tlsconnection as tc
from tlslite.constants import (ContentType, AlertLevel, AlertDescription,
                               HandshakeType, CertificateType, CipherSuite)
from tlslite.errors import (TLSRemoteAlert, TLSLocalAlert,
                            TLSAbruptCloseError, TLSAlert)
from obl.C17 import CONN_FUNCS, _run
from tlslite.handshakesettings import HandshakeSettings


def call_sites():
    """(expected, secondary) argument pairs of every _getMsg call in the
    library, read from the AST of the current source; arguments that are
    variables at the call site are resolved where the enclosing function
    makes them a literal choice, otherwise the site is reported as
    'unresolved' (not claimed)"""
    ns = {"ContentType": ContentType, "HandshakeType": HandshakeType,
          "CertificateType": CertificateType}
    sites = {}
    unresolved = []
    for mod in (tc, trl):
        tree = ast.parse(open(mod.__file__).read())
        for n in ast.walk(tree):
            if isinstance(n, ast.Call) and \
                    isinstance(n.func, ast.Attribute) and \
                    n.func.attr == "_getMsg":
                args = [ast.unparse(a) for a in n.args]
                try:
                    exp = eval(args[0], dict(ns))
                    sec = eval(args[1], dict(ns)) if len(args) > 1 else None
                except Exception:
                    unresolved.append((mod.__name__, n.lineno, args))
                    continue
                if not isinstance(exp, tuple):
                    exp = (exp,)
                if sec is not None and not isinstance(sec, tuple):
                    sec = (sec,)
                sites.setdefault((exp, sec), []).append(
                    "%s:%d" % (mod.__name__.split(".")[-1], n.lineno))
    return sites, unresolved


def _shapes_c06_1(tier):
    sites, unresolved = call_sites()
    out = []
    for (exp, sec), where in sorted(sites.items(), key=repr):
        for ver in ((3, 3), (3, 4)) if tier == "quick" else \
                ((3, 0), (3, 1), (3, 3), (3, 4)):
            for client in (True, False):
                for blen in (0, 1):
                    out.append(dict(expected=list(exp),
                                    secondary=None if sec is None
                                    else list(sec),
                                    version=list(ver), client=client,
                                    blen=blen, where=where[:3]))
    return out


CTOR = {HandshakeType.certificate: CertificateType.x509,
        HandshakeType.server_key_exchange:
            CipherSuite.TLS_ECDHE_RSA_WITH_AES_128_GCM_SHA256,
        HandshakeType.client_key_exchange:
            CipherSuite.TLS_ECDHE_RSA_WITH_AES_128_GCM_SHA256,
        HandshakeType.finished: 32}


@obligation("C06.1", _shapes_c06_1,
            functions=CONN_FUNCS + ["tlslite.messages:*.parse"],
            assumes=CONN_ASSUMES + [
                "one received record with symbolic content type; for "
                "handshake content a symbolic handshake type with a body of "
                "0 or 1 symbolic bytes; (expected, secondary) = every "
                "literal argument pair found at the library's _getMsg call "
                "sites (AST, regenerated each run); handshake in progress "
                "(no session yet)"],
            patches=lambda s: (conn_proxies(), []), max_paths=6000,
            timeout=(300, 1200))
def c06_1(I, shape):
    """_getMsg returns only what the caller said it expects; anything else
    is answered with a fatal alert (or is the peer's alert / a decode error)"""
    version = tuple(shape["version"])
    exp = tuple(shape["expected"])
    sec = None if shape["secondary"] is None else tuple(shape["secondary"])
    ctype = I.byte("ctype")
    htype = I.byte("htype")
    body = I.bytes(shape["blen"], "body")
    payload = [htype, 0, 0, shape["blen"]] + list(body)
    wire = record(ctype, payload)
    conn, sock = make_conn(version, shape["client"], wire, session=False)
    ctor = CTOR.get(sec[0]) if sec else None
    try:
        msg = _run(conn._getMsg(exp, sec, ctor))
        exc = None
    except (TLSAlert, TLSAbruptCloseError) as e:
        msg, exc = None, e
    except Exception as e:
        I.fail("_getMsg raised undocumented %s" % type(e).__name__,
               detail=repr(e))
        return
    sent = split_records(sock.out)
    if exc is None:
        I.check(OR([msg.contentType == t for t in exp]),
                "returned-content-type-was-expected")
        I.check(msg.contentType == ctype, "returned-type-is-the-record-type")
        if msg.contentType == ContentType.handshake:
            I.check(sec is not None and
                    bool(OR([htype == t for t in sec])),
                    "returned-handshake-type-was-expected")
            I.check(msg.handshakeType == htype,
                    "returned-message-class-matches-wire-type")
        return
    if isinstance(exc, TLSLocalAlert):
        I.check(len(sent) >= 1 and sent[-1][0] == ContentType.alert and
                bool(AND(sent[-1][2][0] == AlertLevel.fatal,
                         sent[-1][2][1] == exc.description)),
                "fatal-alert-on-the-wire-before-raising")
        I.check(conn.closed, "closed-after-local-alert")
        # wrong content type or wrong handshake type => unexpected_message
        known = OR([ctype == t for t in ContentType.all])
        wrong = AND(known,
                    OR(AND([ctype != t for t in exp]),
                       AND(ctype == ContentType.handshake, sec is not None,
                           AND([htype != t for t in (sec or ())]))))
        if version > (3, 3) and ContentType.handshake in exp:
            # RFC 8446 D.4: a 0x01 CCS is dropped during the handshake
            wrong = AND(wrong, ctype != ContentType.change_cipher_spec)
        I.check(IMPLIES(wrong,
                        exc.description == AlertDescription.
                        unexpected_message),
                "unexpected-message-alert-for-wrong-type")
    elif isinstance(exc, TLSRemoteAlert):
        I.check(ctype == ContentType.alert, "remote-alert-only-from-alert")
    else:
        I.check(isinstance(exc, TLSAbruptCloseError), "abrupt-close")
        # the wire holds exactly one complete TLS record with a non-empty
        # body: running into end-of-input means that record was silently
        # dropped.  Only a first byte that is no TLS content type (read as an
        # SSLv2 length) or a dropped TLS 1.3 compatibility CCS can end so.
        known = OR([ctype == t for t in ContentType.all])
        ccs13 = AND(version > (3, 3), ctype == ContentType.change_cipher_spec)
        I.check(OR(NOT(known), ccs13),
                "no-record-silently-dropped-during-a-handshake",
                detail=lambda: dict(sent=[(r[0], list(r[2])) for r in sent]))


def _shapes_c06_2(tier):
    out = []
    for ver in ((3, 1), (3, 3), (3, 4)):
        for client in (True, False):
            out.append(dict(version=list(ver), client=client))
    return out


@obligation("C06.2", _shapes_c06_2, functions=CONN_FUNCS,
            assumes=CONN_ASSUMES + [
                "established connection (session set); the peer sends a "
                "handshake record with symbolic type and then application "
                "data"],
            patches=lambda s: (conn_proxies(), []), max_paths=4000)
def c06_2(I, shape):
    """renegotiation attempts are refused with no_renegotiation and never
    start a second handshake"""
    version = tuple(shape["version"])
    client = shape["client"]
    htype = I.byte("htype")
    data = I.bytes(2, "data")
    wire = record(ContentType.handshake, [htype, 0, 0, 0]) + \
        record(ContentType.application_data, data)
    conn, sock = make_conn(version, client, wire)
    before = dict(version=conn.version, closed=conn.closed,
                  session=conn.session)
    try:
        got = _run(conn.readAsync(max=None, min=1))
        exc = None
    except (TLSAlert, TLSAbruptCloseError) as e:
        got, exc = None, e
    except Exception as e:
        I.fail("read raised undocumented %s" % type(e).__name__,
               detail=repr(e))
        return
    sent = split_records(sock.out)
    reneg = htype == (HandshakeType.hello_request if client
                      else HandshakeType.client_hello)
    if exc is None:
        # data delivered: the handshake record was a refused renegotiation
        # (or, in TLS 1.3, nothing else can be skipped)
        I.check(reneg, "only-a-renegotiation-attempt-is-skipped")
        I.check(seq_eq(got, data), "data-after-refused-renegotiation")
        I.check(len(sent) == 1 and sent[0][0] == ContentType.alert and
                list(sent[0][2]) == [AlertLevel.warning,
                                     AlertDescription.no_renegotiation],
                "no_renegotiation-warning-sent")
        I.check(conn.session is before["session"] and not conn.closed and
                conn.version == before["version"],
                "connection-state-untouched-by-renegotiation-attempt")
    else:
        I.check(isinstance(exc, TLSLocalAlert),
                "other-handshake-message-after-handshake-is-fatal")
        I.check(conn.closed and before["session"].resumable is False,
                "closed-and-not-resumable")
    # _handshakeStart on an open connection is refused
    if not conn.closed:
        try:
            conn._handshakeStart(client=client)
            I.fail("second-handshake-started-on-open-connection")
        except ValueError:
            I.cover("renegotiation disallowed")


def _shapes_c06_3(tier):
    out = []
    for client in (True, False):
        for case in ("ccs", "interleave", "boundary", "empty",
                     "empty-in-handshake"):
            out.append(dict(client=client, case=case))
    return out


@obligation("C06.3", _shapes_c06_3, functions=CONN_FUNCS,
            assumes=CONN_ASSUMES + ["TLS 1.3 handshake in progress"],
            patches=lambda s: (conn_proxies(), []), max_paths=4000)
def c06_3(I, shape):
    """TLS 1.3 framing rules of _getMsg: CCS only as the single byte 0x01 in
    compatibility mode, no interleaving of record types inside a handshake
    message, CH/SH/Finished/KeyUpdate end on a record boundary, no empty
    non-application records"""
    case = shape["case"]
    conn_kwargs = dict(session=False)
    if case == "ccs":
        b = I.byte("ccsbyte")
        compat = I.pick([True, False], "compat")
        wire = record(ContentType.change_cipher_spec, [b]) + \
            record(ContentType.handshake, [HandshakeType.finished, 0, 0, 32] +
                   list(I.bytes(32, "vd")))
        conn, sock = make_conn((3, 4), shape["client"], wire, **conn_kwargs)
        conn._middlebox_compat_mode = compat
        try:
            msg = _run(conn._getMsg(ContentType.handshake,
                                    HandshakeType.finished, 32))
            I.check(AND(b == 1, compat), "ccs-tolerated-only-as-0x01-in-"
                    "compat-mode")
        except TLSLocalAlert as e:
            I.check(OR(b != 1, NOT(compat)), "valid-compat-ccs-not-rejected")
            I.check(e.description == AlertDescription.unexpected_message,
                    "unexpected_message-for-bad-ccs")
        return
    if case == "interleave":
        other = I.byte("othertype")
        assume(other != ContentType.handshake)
        # RFC 8446 section 5 / D.4: a compatibility CCS may arrive at any
        # time during the handshake and is dropped
        assume(other != ContentType.change_cipher_spec)
        assume(OR([other == t for t in ContentType.all]))
        wire = record(ContentType.handshake,
                      [HandshakeType.encrypted_extensions, 0, 0, 4, 0]) + \
            record(other, [1, 0]) + \
            record(ContentType.handshake, [2, 0, 0])
        conn, sock = make_conn((3, 4), shape["client"], wire, **conn_kwargs)
        try:
            msg = _run(conn._getMsg(ContentType.handshake,
                                    HandshakeType.encrypted_extensions))
            I.fail("interleaved-record-inside-handshake-message-accepted")
        except TLSLocalAlert as e:
            I.check(e.description == AlertDescription.unexpected_message,
                    "unexpected_message-for-interleaving")
        except TLSRemoteAlert:
            I.fail("interleaved-alert-processed-inside-handshake-message")
        return
    if case == "boundary":
        htype = I.pick([HandshakeType.finished, HandshakeType.key_update,
                        HandshakeType.server_hello,
                        HandshakeType.client_hello,
                        HandshakeType.encrypted_extensions], "first")
        if htype == HandshakeType.finished:
            first = [htype, 0, 0, 32] + list(I.bytes(32, "vd"))
            args = (ContentType.handshake, HandshakeType.finished, 32)
        elif htype == HandshakeType.key_update:
            first = [htype, 0, 0, 1, 0]
            args = (ContentType.handshake, HandshakeType.key_update)
        elif htype == HandshakeType.encrypted_extensions:
            first = [htype, 0, 0, 2, 0, 0]
            args = (ContentType.handshake,
                    HandshakeType.encrypted_extensions)
        else:
            # hello messages: only the boundary check is of interest, the
            # body is the shortest parseable one
            body = [3, 3] + [0] * 32 + [0]
            if htype == HandshakeType.client_hello:
                body += [0, 2, 0x13, 0x01, 1, 0]
            else:
                body += [0x13, 0x01, 0]
            first = [htype, 0, 0, len(body)] + body
            args = (ContentType.handshake, htype)
        extra = list(I.bytes(3, "next"))          # start of another message
        wire = record(ContentType.handshake, first + extra)
        conn, sock = make_conn((3, 4), shape["client"], wire, **conn_kwargs)
        try:
            msg = _run(conn._getMsg(*args))
            I.check(htype == HandshakeType.encrypted_extensions,
                    "key-change-message-must-end-on-record-boundary")
        except TLSLocalAlert as e:
            I.check(htype != HandshakeType.encrypted_extensions,
                    "ordinary-message-may-share-a-record")
            I.check(e.description == AlertDescription.unexpected_message,
                    "unexpected_message-for-misaligned-message")
        return
    if case == "empty-in-handshake":
        # while a handshake message is expected NO empty record is skipped,
        # whatever its type (an empty application_data record injected in the
        # clear must not be tolerated)
        ctype = I.byte("ctype")
        assume(OR([ctype == t for t in ContentType.all]))
        for ver in ((3, 1), (3, 3), (3, 4)):
            wire = record(ctype, []) + record(
                ContentType.handshake,
                [HandshakeType.server_hello_done, 0, 0, 0])
            conn, sock = make_conn(ver, shape["client"], wire, session=False)
            try:
                _run(conn._getMsg(ContentType.handshake,
                                  HandshakeType.server_hello_done))
                I.fail("empty-record-skipped-while-expecting-handshake")
            except TLSLocalAlert as e:
                I.check(e.description == AlertDescription.unexpected_message,
                        "unexpected_message-for-empty-record")
        return
    if case == "empty":
        ctype = I.byte("ctype")
        wire = record(ctype, []) + record(ContentType.application_data,
                                          list(I.bytes(1, "d")))
        for ver in ((3, 3), (3, 4)):
            conn, sock = make_conn(ver, shape["client"], wire)
            try:
                got = _run(conn.readAsync())
                I.check(ctype == ContentType.application_data,
                        "only-empty-application-data-records-are-skipped")
            except (TLSLocalAlert, TLSRemoteAlert, TLSAbruptCloseError):
                I.check(ctype != ContentType.application_data,
                        "empty-application-data-is-legal")
        return


# ---------------------------------------------------------------------------
# C06.4  expectation sequence of the client's key-exchange flight
# ---------------------------------------------------------------------------
from obl.C20 import oracle as _suite_oracle, sym_id as _sym_id, pin as _pin, \
    negotiable as _negotiable
import tlslite.messages as _M


class _Cut(BaseException):
    pass


@obligation("C06.4", lambda tier: [dict(version=[3, 3]), dict(version=[3, 1])],
            functions=["tlslite.tlsconnection:TLSConnection._clientKeyExchange"],
            assumes=["_getMsg is a stub that records its (expected, "
                     "secondary) arguments and returns a message object of "
                     "the first expected type - or, where a "
                     "CertificateRequest is among the expected types, a "
                     "symbolic choice between it and ServerHelloDone; the "
                     "cipher suite is a symbolic id (one path per id class, "
                     "negotiable TLS <= 1.2 suites); the flow is cut when it "
                     "starts to process the key exchange",
                     "oracle: key exchange / authentication read off the "
                     "IANA name (C20's oracle); RFC 5246 7.3, RFC 5054 2.2: "
                     "Certificate iff the suite authenticates with a "
                     "certificate, ServerKeyExchange iff not plain RSA key "
                     "transport, CertificateRequest only from a "
                     "certificate-authenticated non-SRP server"],
            max_paths=4000, also=("C05",))
def c06_4(I, shape):
    """the client asks for exactly the messages its negotiated key exchange
    permits, in order, and refuses a CertificateRequest from an anonymous or
    SRP server"""
    version = tuple(shape["version"])
    cs = _sym_id(I)
    calls = []
    conn, sock = make_conn(version, True, session=False)
    want_cr = I.pick([False, True], "server_sends_certificate_request")

    def fake_getmsg(expected, secondary=None, ctor=None):
        if not isinstance(secondary, tuple):
            secondary = (secondary,)
        calls.append(tuple(secondary))
        if HandshakeType.certificate_request in secondary and want_cr:
            cr = _M.CertificateRequest(version)
            cr.create([], [], [(4, 1)])
            yield cr
        elif HandshakeType.certificate_request in secondary:
            yield _M.ServerHelloDone()
        elif secondary[0] == HandshakeType.server_hello_done:
            yield _M.ServerHelloDone()
        elif secondary[0] == HandshakeType.certificate:
            yield _M.Certificate(ctor, version)
        elif secondary[0] == HandshakeType.server_key_exchange:
            yield _M.ServerKeyExchange(ctor, version)
        else:
            raise AssertionError("unexpected expectation %r" % (secondary,))
    conn._getMsg = fake_getmsg

    def cut(*a, **k):
        raise _Cut()
        yield 0
    conn._clientGetKeyFromChain = cut

    class KX(object):
        def processServerKeyExchange(self, *a):
            raise _Cut()
    settings = HandshakeSettings().validate()
    try:
        for r in conn._clientKeyExchange(settings, cs, None, None, 0, None,
                                         bytearray(32), bytearray(32), KX()):
            pass
        end = "returned"
    except _Cut:
        end = "cut"
    except TLSLocalAlert as e:
        end = "alert"
        alert = e
    k = _pin(cs)
    name = CipherSuite.ietfNames.get(k)
    o = _suite_oracle(name) if name else None
    if o is None or o["tls13"] or not _negotiable(k) or \
            not CipherSuite.filterForVersion([k], version, version):
        I.cover("not a TLS <= 1.2 suite")
        return
    authenticated = o["auth"] is not None
    srp = o["kx"].startswith("srp")
    want = []
    if authenticated:
        want.append((HandshakeType.certificate,))
    if o["kx"] != "rsa":
        want.append((HandshakeType.server_key_exchange,))
    want.append((HandshakeType.certificate_request,
                 HandshakeType.server_hello_done))
    cr_allowed = authenticated and not srp
    if want_cr and cr_allowed:
        want.append((HandshakeType.server_hello_done,))
    if want_cr and not cr_allowed:
        I.check(end == "alert" and bool(
            alert.description == AlertDescription.unexpected_message),
            "certificate-request-from-anonymous-or-srp-server-refused",
            detail=lambda: dict(suite=hex(k), name=name, end=end))
        I.check(calls == want, "expectation-sequence-up-to-the-alert",
                detail=lambda: dict(suite=hex(k), name=name, calls=calls))
        return
    I.check(end == "cut", "flight-accepted-and-key-exchange-started",
            detail=lambda: dict(suite=hex(k), name=name, end=end))
    I.check(calls == want, "expectation-sequence-matches-the-key-exchange",
            detail=lambda: dict(suite=hex(k), name=name, calls=calls,
                                want=want))


# ---------------------------------------------------------------------------
# C06.5  an SSLv2-framed hello is taken only where a ClientHello is expected
# ---------------------------------------------------------------------------

def _shapes_c06_5(tier):
    sites, unresolved = call_sites()
    out = []
    for (exp, sec), where in sorted(sites.items(), key=repr):
        if ContentType.handshake not in exp:
            continue
        for client in (True, False):
            out.append(dict(expected=list(exp),
                            secondary=None if sec is None else list(sec),
                            client=client, where=where[:3]))
    return out


@obligation("C06.5", _shapes_c06_5,
            functions=CONN_FUNCS + ["tlslite.messages:RecordHeader2.parse",
                                    "tlslite.messages:ClientHello.parse"],
            assumes=CONN_ASSUMES + [
                "one SSLv2-framed record (2-byte header) carrying a message "
                "type byte (symbolic) and a well-formed SSLv2 ClientHello "
                "body with symbolic version minor, one cipher spec and a "
                "16-byte challenge, received on an unprotected connection "
                "for every (expected, secondary) pair found at the "
                "library's _getMsg call sites", ],
            patches=lambda s: (conn_proxies(), []), max_paths=4000,
            also=("C08",))
def c06_5(I, shape):
    """an SSLv2-framed record is turned into a message only if it is a
    ClientHello and a ClientHello is what the caller waits for; everything
    else is unexpected_message (or a decode error), never another message
    class and never a raw exception"""
    exp = tuple(shape["expected"])
    sec = tuple(shape["secondary"]) if shape["secondary"] is not None \
        else None
    mtype = I.byte("msg_type")
    minor = I.byte("version_minor")
    chal = I.bytes(16, "challenge")
    body = [mtype, 3, minor, 0, 3, 0, 0, 0, 16, 0, 0, 0x2f] + list(chal)
    wire = [0x80 | (len(body) >> 8), len(body) & 0xff] + body
    conn, sock = make_conn((3, 3), shape["client"], wire, session=False)
    ctor = CTOR.get(sec[0]) if sec else None
    try:
        msg = _run(conn._getMsg(exp, sec, ctor))
        exc = None
    except (TLSAlert, TLSAbruptCloseError) as e:
        msg, exc = None, e
    except Exception as e:
        I.fail("_getMsg raised undocumented %s" % type(e).__name__,
               detail=repr(e))
        return
    want_hello = sec is not None and HandshakeType.client_hello in sec
    if exc is None:
        I.check(want_hello, "sslv2-hello-returned-only-where-expected",
                detail=lambda: dict(expected=shape["secondary"]))
        I.check(mtype == HandshakeType.client_hello,
                "only-a-client-hello-is-taken-from-sslv2-framing")
        I.check(isinstance(msg, _M.ClientHello),
                "returned-message-class-is-client-hello")
        return
    if isinstance(exc, TLSLocalAlert):
        sent = split_records(sock.out)
        I.check(len(sent) >= 1 and sent[-1][0] == ContentType.alert,
                "fatal-alert-on-the-wire-before-raising")
        if not want_hello:
            I.check(exc.description in (AlertDescription.unexpected_message,
                                        AlertDescription.decode_error,
                                        AlertDescription.illegal_parameter,
                                        AlertDescription.protocol_version),
                    "refused-with-a-protocol-alert")
