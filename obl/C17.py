"""C17 - closure, truncation and transport failures are contained and reported
faithfully."""
import socket

from lib.framework import obligation
from symx.core import (SymInt, SymBool, SymBytes, AND, OR, NOT, IFF, IMPLIES,
                       seq_eq, assume, is_concrete_mode, ite, PathAbort,
                       Unsupported)
from models.fixtures import newbuf
from models.conn import (conn_proxies, CONN_ASSUMES, make_conn, record,
                         FaultSock, split_records)

import tlslite.tlsrecordlayer as trl
from tlslite.constants import ContentType, AlertLevel, AlertDescription
from tlslite.errors import (TLSRemoteAlert, TLSLocalAlert,
                            TLSAbruptCloseError, TLSClosedConnectionError,
                            TLSAlert)

CONN_FUNCS = ["tlslite.tlsrecordlayer:TLSRecordLayer.readAsync",
              "tlslite.tlsrecordlayer:TLSRecordLayer.writeAsync",
              "tlslite.tlsrecordlayer:TLSRecordLayer._decrefAsync",
              "tlslite.tlsrecordlayer:TLSRecordLayer._getMsg",
              "tlslite.tlsrecordlayer:TLSRecordLayer._getNextRecord",
              "tlslite.tlsrecordlayer:TLSRecordLayer._getNextRecordFromSocket",
              "tlslite.tlsrecordlayer:TLSRecordLayer._sendMsg",
              "tlslite.tlsrecordlayer:TLSRecordLayer._sendMsgThroughSocket",
              "tlslite.tlsrecordlayer:TLSRecordLayer._sendError",
              "tlslite.tlsrecordlayer:TLSRecordLayer._shutdown",
              "tlslite.recordlayer:RecordLayer.recvRecord",
              "tlslite.recordlayer:RecordSocket.recv",
              "tlslite.recordlayer:RecordSocket._sockRecvAll",
              "tlslite.defragmenter:Defragmenter.get_message",
              "tlslite.defragmenter:Defragmenter.add_data",
              "tlslite.bufferedsocket:BufferedSocket.recv",
              "tlslite.messages:Alert.parse"]

VERSIONS = [(3, 1), (3, 3), (3, 4)]


def _run(gen):
    r = None
    for r in gen:
        if isinstance(r, int) and not isinstance(r, bool) and r in (0, 1):
            raise AssertionError("would-block from an in-memory transport")
    return r


def _shapes_c17_1(tier):
    out = []
    for ver in VERSIONS:
        for client in (True, False):
            for ndata in (0, 2):
                for end in ("alert", "eof", "eof-midrecord"):
                    out.append(dict(version=list(ver), client=client,
                                    ndata=ndata, end=end))
    return out


@obligation("C17.1", _shapes_c17_1, functions=CONN_FUNCS,
            assumes=CONN_ASSUMES + [
                "wire = optional application-data record (symbolic bytes) "
                "followed by an alert record with symbolic level and "
                "description, or by EOF (at a record boundary or after 3 "
                "header bytes); ignoreAbruptClose symbolic"],
            patches=lambda s: (conn_proxies(), []), max_paths=4000,
            also=("C08",))
def c17_1(I, shape):
    """close_notify / warning / fatal alert / EOF seen by read()"""
    version = tuple(shape["version"])
    nd = shape["ndata"]
    data = I.bytes(nd, "appdata")
    level = I.byte("level")
    desc = I.byte("desc")
    wire = []
    if nd:
        wire += record(ContentType.application_data, data)
    if shape["end"] == "alert":
        wire += record(ContentType.alert, [level, desc])
    elif shape["end"] == "eof-midrecord":
        wire += [ContentType.application_data, 3, 3]
    conn, sock = make_conn(version, shape["client"], wire)
    conn.ignoreAbruptClose = I.pick([False, True], "ignoreAbruptClose")
    sess = conn.session
    # ask for more than is there so that the end of the stream is reached
    try:
        got = _run(conn.readAsync(max=None, min=nd + 1))
        exc = None
    except (TLSAlert, TLSAbruptCloseError, socket.error) as e:
        got, exc = None, e
    except Exception as e:
        I.fail("read raised undocumented %s" % type(e).__name__,
               detail=repr(e))
        return
    I.check(conn.closed, "connection-closed-after-end-of-stream")
    sent = split_records(sock.out)
    if shape["end"] == "alert":
        is_close = desc == AlertDescription.close_notify
        if exc is None:
            I.check(is_close, "only-close_notify-ends-read-quietly")
            I.check(seq_eq(got, data), "data-before-close_notify-delivered")
            I.check(sess.resumable is True,
                    "session-resumable-after-orderly-close")
            I.check(len(sent) == 1 and sent[0][0] == ContentType.alert and
                    list(sent[0][2]) == [AlertLevel.warning,
                                         AlertDescription.close_notify],
                    "close_notify-answered")
            # afterwards: reads return empty, writes raise
            again = _run(conn.readAsync())
            I.check(len(again) == 0, "read-after-close-returns-empty")
            try:
                _run(conn.writeAsync(b"x"))
                I.fail("write-after-close-did-not-raise")
            except TLSClosedConnectionError:
                I.cover("write raises closed-connection error")
        else:
            I.check(isinstance(exc, TLSRemoteAlert),
                    "alert-from-peer-surfaces-as-TLSRemoteAlert")
            I.check(NOT(is_close), "close_notify-never-raises")
            I.check(AND(exc.description == desc, exc.level == level),
                    "remote-alert-reported-faithfully")
            I.check(sess.resumable is False,
                    "session-invalidated-by-warning-or-fatal-alert")
    else:
        if exc is None:
            I.check(conn.ignoreAbruptClose is True,
                    "eof-without-alert-is-an-error-unless-opted-out")
            I.check(seq_eq(got, data), "data-before-eof-delivered")
        else:
            I.check(isinstance(exc, TLSAbruptCloseError) and
                    conn.ignoreAbruptClose is False,
                    "abrupt-close-error")
            I.check(sess.resumable is False,
                    "session-invalidated-by-abrupt-close")
            I.check(sent == [], "no-alert-sent-on-dead-transport")


def _shapes_c17_2(tier):
    out = []
    for ver in VERSIONS:
        for close_socket in (True, False):
            for end in ("alert", "eof", "data+alert"):
                out.append(dict(version=list(ver), closeSocket=close_socket,
                                end=end))
    return out


@obligation("C17.2", _shapes_c17_2, functions=CONN_FUNCS,
            assumes=CONN_ASSUMES + [
                "close() with closeSocket True/False; the peer answers with "
                "an alert of symbolic level/description, with EOF, or with "
                "application data followed by an alert"],
            patches=lambda s: (conn_proxies(), []), max_paths=4000)
def c17_2(I, shape):
    """close(): sends close_notify, waits for the peer's unless closeSocket,
    tolerates a dead transport, surfaces other alerts"""
    version = tuple(shape["version"])
    level = I.byte("level")
    desc = I.byte("desc")
    wire = []
    if shape["end"] == "data+alert":
        wire += record(ContentType.application_data, I.bytes(2, "late"))
    if shape["end"] != "eof":
        wire += record(ContentType.alert, [level, desc])
    conn, sock = make_conn(version, True, wire)
    conn.closeSocket = shape["closeSocket"]
    sess = conn.session
    try:
        _run(conn.closeAsync())
        exc = None
    except TLSAlert as e:
        exc = e
    except Exception as e:
        I.fail("close raised undocumented %s" % type(e).__name__,
               detail=repr(e))
        return
    sent = split_records(sock.out)
    I.check(conn.closed, "closed-after-close")
    I.check(len(sent) >= 1 and sent[0][0] == ContentType.alert and
            list(sent[0][2]) == [AlertLevel.warning,
                                 AlertDescription.close_notify],
            "close_notify-sent-first")
    if shape["closeSocket"]:
        I.check(exc is None and sock.closed and sess.resumable is True,
                "close-with-closeSocket-does-not-wait")
        return
    if shape["end"] == "eof":
        I.check(exc is None and sess.resumable is True,
                "peer-closing-the-transport-is-accepted-at-close")
        return
    if exc is None:
        I.check(desc == AlertDescription.close_notify,
                "close-completes-quietly-only-on-close_notify")
        I.check(sess.resumable is True, "session-resumable-after-clean-close")
    else:
        I.check(isinstance(exc, TLSRemoteAlert) and
                bool(AND(exc.description == desc, exc.level == level)),
                "other-alert-surfaces-from-close")
        I.check(NOT(desc == AlertDescription.close_notify),
                "close_notify-never-raises")


def _shapes_c17_3(tier):
    out = []
    for ver in VERSIONS:
        for ctype in ("handshake", "application_data"):
            for follow in ("alert", "eof", "data"):
                out.append(dict(version=list(ver), ctype=ctype,
                                follow=follow))
    return out


@obligation("C17.3", _shapes_c17_3, functions=CONN_FUNCS,
            assumes=CONN_ASSUMES + [
                "the transport's send() raises EPIPE at the first call; what "
                "the peer had already sent (alert with symbolic fields / "
                "nothing / data) is still readable"],
            patches=lambda s: (conn_proxies(), []), max_paths=4000)
def c17_3(I, shape):
    """send failure: during a handshake message look for the peer's alert;
    for application data propagate the socket error; always shut down"""
    from tlslite.messages import Message, ApplicationData, ServerHelloDone
    version = tuple(shape["version"])
    level = I.byte("level")
    desc = I.byte("desc")
    wire = []
    if shape["follow"] == "alert":
        wire += record(ContentType.alert, [level, desc])
    elif shape["follow"] == "data":
        wire += record(ContentType.application_data, I.bytes(2, "d"))
    sock = FaultSock(wire, send_fail_at=0)
    conn, sock = make_conn(version, True, sock=sock)
    sess = conn.session
    try:
        if shape["ctype"] == "application_data":
            _run(conn.writeAsync(bytearray(I.bytes(3, "payload"))
                                 if is_concrete_mode()
                                 else I.bytes(3, "payload")))
        else:
            _run(conn._sendMsg(ServerHelloDone().create()))
        exc = None
    except (socket.error, TLSAlert, TLSAbruptCloseError) as e:
        exc = e
    except Exception as e:
        I.fail("send failure surfaced as undocumented %s"
               % type(e).__name__, detail=repr(e))
        return
    if shape["ctype"] == "application_data":
        I.check(isinstance(exc, socket.error) and
                not isinstance(exc, TLSAlert),
                "socket-error-propagates-from-write")
        I.check(conn.closed, "write-failure-closes-the-connection")
        I.check(sess.resumable is False,
                "session-invalidated-by-write-failure")
        return
    # handshake message: _sendMsgThroughSocket itself shuts down once it has
    # read the peer's next record; when that read fails too the exception
    # leaves through _handshakeWrapperAsync, which shuts down (C17.4)
    if shape["follow"] != "eof":
        I.check(conn.closed and sess.resumable is False,
                "handshake-send-failure-shuts-down-not-resumable")
    if shape["follow"] == "alert":
        I.check(isinstance(exc, TLSRemoteAlert) and
                bool(AND(exc.description == desc, exc.level == level)),
                "pending-peer-alert-is-surfaced")
    elif shape["follow"] == "eof":
        I.check(isinstance(exc, (TLSAbruptCloseError, socket.error)),
                "dead-transport-reported")
    else:
        I.check(exc is None or isinstance(exc, (socket.error,
                                                TLSAbruptCloseError)),
                "no-foreign-exception")


def _shapes_c17_4(tier):
    out = []
    for kind in ("local-alert", "remote-alert", "socket-error", "abrupt-close",
                 "other-exception", "checker-fails", "none"):
        for step in (0, 2):
            out.append(dict(kind=kind, step=step))
    return out


@obligation("C17.4", _shapes_c17_4,
            functions=["tlslite.tlsconnection:TLSConnection."
                       "_handshakeWrapperAsync",
                       "tlslite.tlsrecordlayer:TLSRecordLayer._sendError",
                       "tlslite.tlsrecordlayer:TLSRecordLayer._getMsg",
                       "tlslite.tlsrecordlayer:TLSRecordLayer._shutdown"],
            assumes=CONN_ASSUMES + [
                "the handshaker is a stub generator that, after `step` "
                "would-block yields, fails the way the library's own code "
                "fails: through _sendError (local alert, symbolic "
                "description), through _getMsg reading an alert record "
                "(symbolic level/description), with socket.error, "
                "TLSAbruptCloseError or an arbitrary exception; or it "
                "succeeds and the Checker rejects"],
            patches=lambda s: (conn_proxies(), []), also=("C08",))
def c17_4(I, shape):
    """_handshakeWrapperAsync: every failure leaves the connection shut
    down, the session not resumable, and reaches the caller unchanged"""
    from tlslite.errors import TLSAuthenticationError, TLSFingerprintError
    from tlslite.session import Session
    kind, step = shape["kind"], shape["step"]
    level = I.byte("level")
    desc = I.byte("desc")
    wire = record(ContentType.alert, [level, desc]) \
        if kind == "remote-alert" else []
    conn, sock = make_conn((3, 3), True, wire, session=False)
    conn.closed = True          # a handshake is in progress
    conn.session = Session()
    conn.session.resumable = True
    marker = ValueError("arbitrary failure inside the handshake")

    def handshaker():
        for _ in range(step):
            yield 0
        if kind == "local-alert":
            for r in conn._sendError(desc, "injected"):
                yield r
        elif kind == "remote-alert":
            for r in conn._getMsg(ContentType.handshake, 2):
                yield r
        elif kind == "socket-error":
            raise socket.error(104, "reset")
        elif kind == "abrupt-close":
            raise TLSAbruptCloseError()
        elif kind == "other-exception":
            raise marker
        conn._handshakeDone(resumed=False)

    def checker(c):
        if kind == "checker-fails":
            raise TLSFingerprintError("fingerprint mismatch")
    yields = []
    try:
        for r in conn._handshakeWrapperAsync(handshaker(), checker):
            yields.append(r)
        exc = None
    except Exception as e:
        exc = e
    if kind == "none":
        I.check(exc is None and not conn.closed,
                "successful-handshake-reported-complete")
        return
    I.check(exc is not None, "failure-reaches-the-caller")
    I.check(yields == [0] * step, "would-block-markers-forwarded")
    I.check(conn.closed, "connection-shut-down-after-failed-handshake")
    if kind == "remote-alert":
        # a close_notify from the peer is the one orderly way out that the
        # code documents as keeping an (earlier, complete) session resumable
        I.check(IFF(conn.session.resumable is False,
                    desc != AlertDescription.close_notify),
                "session-not-resumable-unless-orderly-close_notify")
    else:
        I.check(conn.session.resumable is False,
                "session-not-resumable-after-failed-handshake")
    I.check(conn._recordLayer._writeState.encContext is None and
            conn._recordLayer._readState.encContext is None,
            "record-layer-state-cleared")
    sent = split_records(sock.out)
    if kind == "local-alert":
        I.check(isinstance(exc, TLSLocalAlert) and
                bool(exc.description == desc) and len(sent) == 1 and
                sent[0][0] == ContentType.alert and
                bool(AND(sent[0][2][0] == AlertLevel.fatal,
                         sent[0][2][1] == desc)),
                "fatal-alert-sent-before-local-alert-is-raised")
    elif kind == "remote-alert":
        I.check(isinstance(exc, (TLSRemoteAlert, TLSLocalAlert)),
                "peer-alert-surfaces-as-alert")
        if isinstance(exc, TLSRemoteAlert):
            I.check(AND(exc.description == desc, exc.level == level),
                    "remote-alert-reported-faithfully")
    elif kind == "socket-error":
        I.check(isinstance(exc, socket.error) and exc.args[0] == 104,
                "socket-error-unchanged")
    elif kind == "abrupt-close":
        I.check(isinstance(exc, TLSAbruptCloseError), "abrupt-close-unchanged")
    elif kind == "other-exception":
        I.check(exc is marker, "exception-unchanged")
    elif kind == "checker-fails":
        I.check(isinstance(exc, TLSFingerprintError) and len(sent) == 1 and
                sent[0][0] == ContentType.alert,
                "checker-failure-sends-alert-and-fails-the-call")


class DeadSock(FaultSock):
    """transport that is gone for good: every send/sendall raises EPIPE"""

    def send(self, d):
        self.sends += 1
        raise socket.error(32, "broken pipe")

    def sendall(self, d):
        self.sends += 1
        raise socket.error(32, "broken pipe")


@obligation("C17.5", lambda tier: [dict(buffered=b, n=n) for b in (True, False)
                                   for n in (1, 2)],
            functions=["tlslite.bufferedsocket:BufferedSocket.flush",
                       "tlslite.bufferedsocket:BufferedSocket.send",
                       "tlslite.bufferedsocket:BufferedSocket.close",
                       "tlslite.tlsrecordlayer:TLSRecordLayer._sendMsgs",
                       "tlslite.tlsrecordlayer:TLSRecordLayer._shutdown",
                       "tlslite.tlsconnection:TLSConnection."
                       "_handshakeWrapperAsync"],
            assumes=CONN_ASSUMES + [
                "the transport fails persistently (every send raises EPIPE) "
                "while a coalesced flight of n handshake messages is flushed "
                "or sent unbuffered; the peer has sent nothing"],
            patches=lambda s: (conn_proxies(), []))
def c17_5(I, shape):
    """a persistent transport failure during a flight still ends with the
    raw socket closed, the connection closed and the session invalidated"""
    from tlslite.messages import ServerHelloDone, Finished
    from tlslite.session import Session
    sock = DeadSock([])
    conn, sock = make_conn((3, 3), False, sock=sock, session=False)
    conn.closed = True
    conn.session = Session()
    conn.session.resumable = True
    msgs = [ServerHelloDone().create()] + \
        [Finished((3, 3)).create(I.bytes(12, "vd"))][:shape["n"] - 1]

    def handshaker():
        if shape["buffered"]:
            for r in conn._sendMsgs(msgs):
                yield r
        else:
            for m in msgs:
                for r in conn._sendMsg(m):
                    yield r
        conn._handshakeDone(False)
    try:
        for r in conn._handshakeWrapperAsync(handshaker(), None):
            pass
        exc = None
    except (socket.error, TLSAbruptCloseError) as e:
        exc = e
    except Exception as e:
        I.fail("transport failure surfaced as %s" % type(e).__name__,
               detail=repr(e))
        return
    I.check(exc is not None, "failure-reported")
    I.check(conn.closed, "connection-closed")
    I.check(sock.closed, "raw-socket-closed")
    I.check(conn.session.resumable is False, "session-not-resumable")


# ---------------------------------------------------------------------------
# C17.6  transport fault at every send / recv index of whole handshakes
#        (two live endpoints)
# ---------------------------------------------------------------------------
from models import pair as P
from tlslite.errors import BaseTLSException

PAIR_RND17 = P.RandomSource(None)


def _pair_patches17(shape):
    P.ModelKEX.rnd = PAIR_RND17
    return (P.pair_proxies(), P.pair12_stubs(PAIR_RND17))

FLAVOURS6 = {
    "tls13": dict(v="13"),
    "tls13-clientauth": dict(v="13", cauth=True),
    "tls12-ecdhe-gcm": dict(v=(3, 3), kx="ecdhe_rsa", c="aes128gcm"),
    "tls12-rsa-cbc": dict(v=(3, 3), kx="rsa", c="aes128"),
    "tls12-dhe-cbc": dict(v=(3, 3), kx="dhe_rsa", c="aes128"),
    "tls12-clientauth": dict(v=(3, 3), kx="ecdhe_rsa", c="aes128gcm",
                             cauth=True),
    "tls11-ecdhe-cbc": dict(v=(3, 2), kx="ecdhe_rsa", c="aes128"),
    "tls10-ecdhe-cbc": dict(v=(3, 1), kx="ecdhe_rsa", c="aes128"),
}


def _shapes_c17_6(tier):
    out = []
    flav = ["tls13", "tls12-ecdhe-gcm", "tls12-rsa-cbc", "tls10-ecdhe-cbc"]
    modes = [("send", "reset"), ("recv", "reset"), ("recv", "eof")]
    ks = range(0, 6)
    if tier != "quick":
        # the client-authentication flavours are left out: with symbolic
        # randoms this scenario does not complete even without a fault (a
        # harness limitation, not a library result), so nothing is claimed
        # for them
        flav = [f for f in FLAVOURS6 if "clientauth" not in f]
        modes = [("send", "reset"), ("send", "epipe"), ("recv", "reset"),
                 ("recv", "eof")]
        ks = range(0, 10)
    for f in flav:
        for who in ("c", "s"):
            for op, mode in modes:
                for k in ks:
                    out.append(dict(flavour=f, who=who, op=op, mode=mode,
                                    k=k))
    return out


@obligation("C17.6", _shapes_c17_6,
            functions=["tlslite.tlsconnection:TLSConnection."
                       "_handshakeWrapperAsync",
                       "tlslite.tlsconnection:TLSConnection."
                       "_handshakeClientAsyncHelper",
                       "tlslite.tlsconnection:TLSConnection."
                       "_handshakeServerAsyncHelper",
                       "tlslite.tlsconnection:TLSConnection."
                       "_clientTLS13Handshake",
                       "tlslite.tlsconnection:TLSConnection."
                       "_serverTLS13Handshake",
                       "tlslite.tlsrecordlayer:TLSRecordLayer."
                       "_sendMsgThroughSocket",
                       "tlslite.tlsrecordlayer:TLSRecordLayer._getMsg",
                       "tlslite.tlsrecordlayer:TLSRecordLayer."
                       "_getNextRecordFromSocket",
                       "tlslite.tlsrecordlayer:TLSRecordLayer._shutdown",
                       "tlslite.tlsrecordlayer:TLSRecordLayer.readAsync",
                       "tlslite.tlsrecordlayer:TLSRecordLayer.writeAsync",
                       "tlslite.recordlayer:RecordSocket.recv",
                       "tlslite.recordlayer:RecordSocket.send"],
            assumes=P.PAIR_ASSUMES + [
                "two live endpoints run a whole handshake of the shape's "
                "flavour; the k-th (0-based) send call, or recv call with "
                "data waiting, of one side fails: ECONNRESET / EPIPE raised, "
                "or recv returns EOF; afterwards that side's transport is "
                "dead (buffered input still readable, then the same errno) "
                "and the peer reads EOF once its inbox is drained",
                "if index k lies beyond the handshake, the fault is carried "
                "into a 5-byte application-data exchange in both directions",
                "handshake randoms, key shares and nonces are symbolic; hashes, MACs, PRF/HKDF, "
                "(EC)DH, signatures, AEAD/CBC are the uninterpreted models of "
                "the pair fixture"],
            patches=_pair_patches17, max_paths=200, timeout=(600, 1800))
def c17_6(I, shape):
    """a transport fault at any send/recv index of a handshake (or of the
    data exchange that follows) surfaces as socket.error /
    TLSAbruptCloseError at the side it hits, leaves that side closed with no
    resumable session and no completed handshake; the peer never crashes and
    is never left with a resumable session from an uncompleted handshake"""
    fl = FLAVOURS6[shape["flavour"]]
    kw = dict(server_cred="rsa")
    if fl["v"] == "13":
        cset, sset = P.settings13(), P.settings13()
    else:
        cset = P.settings12(fl["v"], fl["kx"], fl["c"], "sha")
        sset = P.settings12(fl["v"], fl["kx"], fl["c"], "sha")
    if fl.get("cauth"):
        kw.update(client_cred="rsa", req_cert=True)
    sc = P.Scenario(I, PAIR_RND17, cset, sset, **kw)
    plan = P.FaultPlan(shape["who"], shape["op"], shape["k"], shape["mode"])
    sc.run(mitm=plan)
    vep, pep = (sc.cep, sc.sep) if shape["who"] == "c" else (sc.sep, sc.cep)
    v, p = vep.conn, pep.conn

    def transport_error(e):
        return isinstance(e, (socket.error, TLSAbruptCloseError)) and \
            not isinstance(e, TLSAlert)

    def not_resumable(conn):
        return conn.session is None or conn.session.resumable is False \
            or not conn.session.valid()

    for ep, name in ((vep, "faulted-side"), (pep, "peer")):
        I.check(ep.crash is None, "no-raw-exception-" + name,
                detail=lambda ep=ep: dict(tb=ep.crash))
    if plan.fired:
        I.cover("fault-during-handshake")
        I.check(vep.done, "faulted-handshake-call-returns",
                detail=lambda: dict(blocked=vep.blocked))
        if not vep.done:
            return
        I.check(vep.error is not None, "no-handshake-reported-complete",
                detail=lambda: dict(k=shape["k"]))
        I.check(vep.error is None or transport_error(vep.error),
                "fault-surfaces-as-socket-or-abrupt-close-error",
                detail=lambda: dict(err=repr(vep.error)))
        if shape["mode"] == "eof":
            I.check(vep.error is None or
                    isinstance(vep.error, TLSAbruptCloseError),
                    "eof-surfaces-as-abrupt-close",
                    detail=lambda: dict(err=repr(vep.error)))
        elif isinstance(vep.error, socket.error) and \
                not isinstance(vep.error, BaseTLSException):
            I.check(vep.error.args[0] == plan.fault["errno"],
                    "errno-unchanged", detail=lambda: dict(e=repr(vep.error)))
        I.check(v.closed, "faulted-side-closed")
        I.check(not_resumable(v), "faulted-side-session-not-resumable")
        I.check(v._recordLayer._writeState.encContext is None and
                v._recordLayer._readState.encContext is None,
                "faulted-side-record-state-cleared")
        # the peer either had everything it needed (completed) or fails
        # cleanly on the EOF that follows
        I.check(pep.done, "peer-call-returns",
                detail=lambda: dict(blocked=pep.blocked))
        if pep.done and pep.error is not None:
            I.check(p.closed and not_resumable(p),
                    "peer-closed-and-not-resumable-after-failed-handshake",
                    detail=lambda: dict(err=repr(pep.error)))
            I.check(isinstance(pep.error, (socket.error, TLSAbruptCloseError,
                                           TLSLocalAlert, TLSRemoteAlert)),
                    "peer-fails-with-a-tls-or-socket-error",
                    detail=lambda: dict(err=repr(pep.error)))
        return
    # the fault index lies beyond the handshake
    I.check(sc.both_completed(), "handshake-completes-without-fault",
            detail=lambda: dict(c=repr(sc.cep.error), s=repr(sc.sep.error)))
    if not sc.both_completed():
        return
    data = I.bytes(5, "data")
    errs = {}

    def drive(conn, gen, tag):
        try:
            for r in gen:
                if isinstance(r, int) and not isinstance(r, bool) and \
                        r in (0, 1):
                    return "blocked"
                return r
        except (PathAbort, Unsupported):
            raise
        except (BaseTLSException, socket.error) as e:
            errs[tag] = e
            return e
        except Exception as e:
            I.fail("data exchange raised %s" % type(e).__name__,
                   detail=repr(e)[:200])
            raise PathAbort()
    for rnd in range(3):
        if plan.fired:
            break
        r = drive(v, v.writeAsync(newbuf(list(data))), "v-write")
        if plan.fired:
            break
        r = drive(p, p.readAsync(max=5, min=5), "p-read")
        if not plan.fired:
            I.check(not isinstance(r, Exception) and r != "blocked" and
                    bool(seq_eq(list(r), list(data))),
                    "data-delivered-before-the-fault")
        drive(p, p.writeAsync(newbuf(list(data))), "p-write")
        r = drive(v, v.readAsync(max=5, min=5), "v-read")
        if not plan.fired:
            I.check(not isinstance(r, Exception) and r != "blocked" and
                    bool(seq_eq(list(r), list(data))),
                    "data-delivered-before-the-fault")
    if not plan.fired:
        I.cover("fault-index-never-reached")
        return
    I.cover("fault-during-data-exchange")
    tag = "v-write" if shape["op"] == "send" else "v-read"
    e = errs.get(tag)
    I.check(e is not None and transport_error(e),
            "data-phase-fault-surfaces-as-socket-or-abrupt-close-error",
            detail=lambda: dict(errs={k: repr(x) for k, x in errs.items()}))
    if shape["mode"] == "eof":
        I.check(isinstance(e, TLSAbruptCloseError),
                "truncation-is-not-mistaken-for-end-of-data",
                detail=lambda: dict(e=repr(e)))
        I.check(not_resumable(v), "abrupt-close-session-not-resumable")
    I.check(v.closed, "faulted-side-closed-after-data-phase-fault")
    # later calls keep failing rather than pretending the stream ended
    r2 = drive(v, v.writeAsync(newbuf(list(data))), "v-write-2")
    I.check(isinstance(r2, Exception), "write-after-failure-raises",
            detail=lambda: dict(r=repr(r2)))
