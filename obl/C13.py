"""C13 - resumption reproduces the original session's security, or falls back
cleanly.  (The session cache itself is C18.1, which also runs under C13.)"""
from lib.framework import obligation
from symx.core import (SymInt, SymBool, SymBytes, AND, OR, NOT, IFF, IMPLIES,
                       seq_eq, assume, is_concrete_mode, ite, PathAbort,
                       Unsupported)
from models.fixtures import newbuf
from models.conn import record, split_records
from models.crypto import StubAEAD
from models.hello import (hello_proxies, hello_stubs, HELLO_ASSUMES,
                          server_conn, run_server_hello, ch_bytes,
                          std_extensions, raw_ext, settings_family, Cut,
                          RSA_CHAIN, RSA_KEY, client_conn, run_client_hello,
                          sh_bytes)

import tlslite.tlsconnection as tc
import tlslite.session as sess_mod
import tlslite.extensions as X
import tlslite.messages as M
from tlslite.session import Session, Ticket
from tlslite.constants import (ContentType, HandshakeType, ExtensionType,
                               CipherSuite, GroupName, AlertDescription,
                               AlertLevel)
from tlslite.handshakesettings import HandshakeSettings
from tlslite.errors import TLSLocalAlert


# ---------------------------------------------------------------------------
# C13.4  Session.valid()
# ---------------------------------------------------------------------------

@obligation("C13.4", lambda tier: [dict()],
            functions=["tlslite.session:Session.valid",
                       "tlslite.session:Session._setResumable"],
            assumes=["resumable flag and presence of session ID / TLS 1.3 "
                     "tickets / TLS 1.2 tickets chosen by symbolic selectors"])
def c13_4(I, shape):
    """a session is offered for resumption only while it is resumable and
    has something to resume with"""
    s = Session()
    res = I.pick([False, True], "resumable")
    sid = I.pick([bytearray(), bytearray(b"\x01" * 32)], "sessionID")
    t13 = I.pick([[], ["ticket13"]], "tickets")
    t12 = I.pick([[], ["ticket12"]], "tls_1_0_tickets")
    s.sessionID = sid
    s.resumable = res
    s.tickets = t13
    s.tls_1_0_tickets = t12
    I.check(bool(s.valid()) == (res and bool(sid or t13 or t12)),
            "valid-iff-resumable-and-has-id-or-ticket")
    s2 = Session()
    s2.sessionID = bytearray()
    s2._setResumable(True)
    I.check(not s2.resumable, "no-session-id-no-resumable-flag")


# ---------------------------------------------------------------------------
# C13.1  server: conditions for session-ID resumption
# ---------------------------------------------------------------------------

SUITE_A = CipherSuite.TLS_ECDHE_RSA_WITH_AES_128_GCM_SHA256
SUITE_B = CipherSuite.TLS_ECDHE_RSA_WITH_AES_256_GCM_SHA384
SUITE_OLD = CipherSuite.TLS_RSA_WITH_RC4_128_SHA    # not enabled by default


def _shapes_c13_1(tier):
    out = []
    for suite in ("A", "B", "OLD"):
        for offered in ("A", "AB", "B"):
            out.append(dict(session_suite=suite, offered=offered))
    return out


@obligation("C13.1", _shapes_c13_1,
            functions=["tlslite.tlsconnection:TLSConnection."
                       "_serverGetClientHello",
                       "tlslite.tlsrecordlayer:TLSRecordLayer._getMsg",
                       "tlslite.messages:ClientHello.parse"],
            assumes=HELLO_ASSUMES + [
                "session cache = mapping holding ONE session under the "
                "offered ID; its resumable flag, extended-master-secret and "
                "encrypt-then-MAC properties and server name are chosen by "
                "symbolic selectors, as are the ClientHello's EMS / EtM "
                "extensions and SNI; cipher suite of the session and the "
                "client's offer enumerated; a second selector makes the "
                "offered ID unknown to the cache"],
            patches=lambda s: (hello_proxies(), hello_stubs()),
            max_paths=20000, timeout=(400, 1200), also=("C03",))
def c13_1(I, shape):
    """the server resumes only a resumable, still-acceptable session that is
    consistent with the new ClientHello; otherwise it falls back to a full
    handshake or aborts with an alert - never an exception"""
    suites = {"A": SUITE_A, "B": SUITE_B, "OLD": SUITE_OLD}
    offered = [suites[c] for c in shape["offered"]]
    sess = Session()
    sess.sessionID = bytearray(b"\x07" * 32)
    sess.masterSecret = bytearray(48)
    sess.cipherSuite = suites[shape["session_suite"]]
    sess.resumable = I.pick([True, False], "resumable")
    sess.extendedMasterSecret = I.pick([True, False], "sess_ems")
    sess.encryptThenMAC = I.pick([False, True], "sess_etm")
    sess.serverName = I.pick(["", "a.example"], "sess_sni")
    sess.srpUsername = ""
    known = I.pick([True, False], "id_known")
    ch_ems = I.pick([True, False], "ch_ems")
    ch_etm = I.pick([False, True], "ch_etm")
    ch_sni = I.pick([None, b"a.example", b"b.example"], "ch_sni")
    cache = {}
    if known:
        cache[bytes(sess.sessionID)] = sess

    class Cache(object):
        """SessionCache contract: only live, resumable sessions come back
        (C18.1 is the obligation for SessionCache itself)"""
        def __getitem__(self, sid):
            s = cache[bytes(sid)]
            if not s.valid():
                raise KeyError(sid)
            return s

        def __setitem__(self, sid, s):
            cache[bytes(sid)] = s
    exts = std_extensions(False)
    if ch_ems:
        exts.append(raw_ext(ExtensionType.extended_master_secret, []))
    if ch_etm:
        exts.append(raw_ext(ExtensionType.encrypt_then_mac, []))
    if ch_sni:
        exts.append(X.SNIExtension().create(bytearray(ch_sni)))
    wire = record(ContentType.handshake,
                  ch_bytes((3, 3), offered, exts,
                           session_id=bytes(sess.sessionID)))
    conn = server_conn(wire)
    settings = settings_family()["default"]
    try:
        out = run_server_hello(conn, settings, RSA_CHAIN, RSA_KEY,
                               cache=Cache())
    except (PathAbort, Unsupported):
        raise
    except Exception as e:
        I.fail("resumption attempt raised %s" % type(e).__name__,
               detail=repr(e))
        return
    enabled = sess.cipherSuite in (SUITE_A, SUITE_B)
    if out["kind"] == "resumed":
        I.check(known, "resumed-session-came-from-the-cache")
        I.check(sess.resumable, "only-resumable-sessions-are-resumed")
        I.check(enabled, "session-suite-still-allowed-by-server-settings")
        I.check(sess.cipherSuite in offered,
                "session-suite-offered-by-the-client")
        I.check(sess.extendedMasterSecret == ch_ems,
                "ems-property-consistent")
        I.check((not sess.encryptThenMAC) or ch_etm,
                "etm-session-needs-etm-offer")
        I.check(ch_sni is None or
                sess.serverName == ch_sni.decode(), "server-name-consistent")
        sh = out["sent"][0]
        I.check(sh[0] == ContentType.handshake and
                sh[2][0] == HandshakeType.server_hello,
                "server-hello-sent-for-resumption")
    elif out["kind"] == "ret":
        # full handshake: the session was not usable
        usable = (known and sess.resumable and enabled and
                  sess.cipherSuite in offered and
                  sess.extendedMasterSecret == ch_ems and
                  ((not sess.encryptThenMAC) or ch_etm) and
                  (ch_sni is None or sess.serverName == ch_sni.decode()))
        I.check(not usable, "usable-session-is-resumed")
    else:
        I.check(out["kind"] == "alert", "alert-or-fallback")
        sent = out["sent"]
        I.check(len(sent) >= 1 and sent[-1][0] == ContentType.alert,
                "alert-on-the-wire")


# ---------------------------------------------------------------------------
# C13.2  TLS <= 1.2 session tickets: only current keys, only unexpired
# ---------------------------------------------------------------------------

def _ticket_stubs(clock):
    def mk_aead(key, implementations=None):
        return StubAEAD("tk" + bytes(key).hex()[:8], "aes256gcm", 12, 16)

    def derive(nonce, user_key, settings):
        # key separation per ticket key; the nonce mixing is HKDF (C09.12)
        return bytearray(user_key), bytearray(12)

    class T(object):
        @staticmethod
        def time():
            return clock[0]
    return [(tc, "createAESGCM", mk_aead),
            (tc.TLSConnection, "_derive_key_iv", staticmethod(derive)),
            (tc, "time", T)]


def _shapes_c13_2(tier):
    out = []
    for keys in ("A", "B", "BA", ""):
        for forged in (False, True):
            out.append(dict(keys=keys, forged=forged))
    return out


def _c13_2_patches(shape):
    clock = [0]
    _c13_2_patches.clock = clock
    return (hello_proxies(), hello_stubs() + _ticket_stubs(clock))


@obligation("C13.2", _shapes_c13_2,
            functions=["tlslite.tlsconnection:TLSConnection._ticket_to_session",
                       "tlslite.tlsconnection:TLSConnection._tryDecrypt",
                       "tlslite.messages:SessionTicketPayload.parse",
                       "tlslite.messages:SessionTicketPayload.write"],
            assumes=["ticket cipher = AEAD model keyed by the ticket key "
                     "(unforgeable: a tag verifies only for what was sealed "
                     "under that key); _derive_key_iv reduced to key "
                     "separation; clock and ticket creation time symbolic; "
                     "server's current ticketKeys in {[A], [B], [B, A], []}; "
                     "the honest ticket was issued under key A; 'forged' = "
                     "arbitrary symbolic ticket bytes of the same length"],
            patches=_c13_2_patches, max_paths=8000)
def c13_2(I, shape):
    """a ticket yields a session only if it was issued under one of the
    server's CURRENT ticket keys and has not expired; anything else yields
    None - never an exception"""
    clock = _c13_2_patches.clock
    keyA, keyB = bytearray(b"A" * 32), bytearray(b"B" * 32)
    keys = [{"A": keyA, "B": keyB}[c] for c in shape["keys"]]
    created = I.int_range(0, 20, "creation_time")
    now = I.int_range(0, 40, "now")
    lifetime = I.int_range(1, 10, "ticketLifetime")
    clock[0] = now
    payload = M.SessionTicketPayload().create(
        bytearray(48), (3, 3), SUITE_A, created, bytearray(b"n" * 32),
        encrypt_then_mac=True, extended_master_secret=True,
        server_name=bytearray(b"a.example"))
    pt = payload.write()
    issuer = StubAEAD("tk" + bytes(keyA).hex()[:8], "aes256gcm", 12, 16)
    sealed = issuer.seal(bytearray(12), newbuf(list(pt)), b"")
    if shape["forged"]:
        body = I.bytes(len(sealed), "forged")
    else:
        body = sealed
    ticket = newbuf(list(bytearray(b"n" * 32)) + list(body))

    class S(object):
        ticketKeys = keys
        ticketCipher = "aes256gcm"
        ticketLifetime = lifetime
        cipherImplementations = ["python"]
    conn = tc.TLSConnection(None)
    conn.version = (3, 3)
    # unforgeability: what verifies under a key was sealed under that key
    orig = tc.createAESGCM

    def guarded(key, impl=None):
        a = orig(key, impl)
        a.honest = [(w[0], w[1], w[2]) for w in issuer.seal_log] \
            if a.kn == issuer.kn else []
        return a
    tc.createAESGCM = guarded
    try:
        ext = X.SessionTicketExtension().create(ticket)
        try:
            sess = conn._ticket_to_session(S(), ext)
        except (PathAbort, Unsupported):
            raise
        except Exception as e:
            I.fail("_ticket_to_session raised %s" % type(e).__name__,
                   detail=repr(e))
            return
    finally:
        tc.createAESGCM = orig
    current = "A" in shape["keys"]
    if sess is not None:
        I.check(current, "ticket-key-is-a-current-one")
        I.check(NOT(created + lifetime < now), "ticket-not-expired")
        I.check(sess.cipherSuite == SUITE_A and sess.encryptThenMAC is True
                and sess.extendedMasterSecret is True and
                sess.serverName == "a.example" and sess.resumable,
                "session-reproduces-the-ticket-contents")
        if shape["forged"]:
            I.check(seq_eq(body, sealed), "only-the-issued-ticket-verifies")
    else:
        if not shape["forged"]:
            I.check(OR(not current, created + lifetime < now),
                    "valid-current-ticket-is-accepted")
        else:
            I.cover("forged ticket refused")


# ---------------------------------------------------------------------------
# C13.3  client: resumption is assumed only when the server confirmed it
# ---------------------------------------------------------------------------

def _shapes_c13_3(tier):
    out = []
    for how in ("session-id", "ticket"):
        for maxv in ((3, 3), (3, 4)):
            out.append(dict(how=how, maxVersion=list(maxv)))
    return out


@obligation("C13.3", _shapes_c13_3,
            functions=["tlslite.tlsconnection:TLSConnection._clientResume",
                       "tlslite.tlsconnection:TLSConnection."
                       "_handshakeClientAsyncHelper",
                       "tlslite.tlsconnection:TLSConnection."
                       "_clientSendClientHello",
                       "tlslite.tlsconnection:TLSConnection."
                       "_clientGetServerHello"],
            assumes=HELLO_ASSUMES + [
                "client holds a resumable TLS 1.2 session (by session ID or "
                "by a TLS 1.2 session ticket); the ServerHello either echoes "
                "the ClientHello's session ID or carries a fresh one "
                "(symbolic choice), same or other cipher suite; stages after "
                "the resumption decision are cut"],
            patches=lambda s: (hello_proxies(), hello_stubs()),
            max_paths=4000)
def c13_3(I, shape):
    """the client treats the handshake as resumed only if the server echoed
    the session ID it offered; a server that declines gets a full handshake,
    not an abort"""
    settings = HandshakeSettings()
    settings.maxVersion = tuple(shape["maxVersion"])
    settings.keyShares = ["secp256r1"]
    sess = Session()
    sess.masterSecret = bytearray(48)
    sess.cipherSuite = SUITE_A
    sess.resumable = True
    sess.srpUsername = None
    sess.serverName = None
    sess.extendedMasterSecret = True
    sess.encryptThenMAC = False
    if shape["how"] == "session-id":
        sess.sessionID = bytearray(b"\x09" * 32)
    else:
        sess.sessionID = bytearray()
        sess.tls_1_0_tickets = [Ticket(bytearray(b"T" * 40), 1000,
                                       bytearray(48), SUITE_A)]
    echo = I.pick([True, False], "server_echoes")
    same_suite = I.pick([True, False], "same_suite")
    decided = {}

    def server_wire(ch):
        sid = ch.session_id if echo and ch.session_id else \
            bytearray(b"\x55" * 32)
        decided["offered_sid"] = bytes(ch.session_id)
        exts = [raw_ext(ExtensionType.extended_master_secret, [])]
        return record(ContentType.handshake,
                      sh_bytes((3, 3), bytearray(32), sid,
                               SUITE_A if same_suite else SUITE_B, exts))
    conn = client_conn()

    def cut_fin(*a, **k):
        raise Cut("resumption-assumed")
        yield 0

    def cut_kx(*a, **k):
        raise Cut("full-handshake")
        yield 0
    conn._getFinished = cut_fin
    conn._clientKeyExchange = cut_kx
    conn._calcPendingStates = lambda *a: None
    # let the real _clientResume run
    real_resume = tc.TLSConnection._clientResume
    out = None
    try:
        import models.hello as H
        saved = conn.__dict__.get("_clientResume")
        out = run_client_hello(conn, settings, server_wire, session=sess,
                               cert_params=(None, None))
    except (PathAbort, Unsupported):
        raise
    except Exception as e:
        I.fail("client raised %s" % type(e).__name__, detail=repr(e))
        return
    # run_client_hello cuts at _clientResume; re-run the decision itself
    if out["kind"] != "tls12-continues":
        I.cover(out["kind"])
        return
    serverHello = out["data"]
    conn2 = conn
    import inspect
    extra = ()
    if len(inspect.signature(real_resume).parameters) > 6:
        # newer signature: the session ID offered in the ClientHello
        extra = (out["clientHello"].session_id,)
    try:
        for r in real_resume(conn2, sess, serverHello, bytearray(32), None,
                             settings.validate(), *extra):
            pass
        kind = "full-handshake"
    except Cut as c:
        kind = c.where
    except TLSLocalAlert as e:
        kind = "alert"
    confirmed = echo and bool(decided["offered_sid"])
    if kind == "resumption-assumed":
        I.check(confirmed, "resumption-assumed-only-when-server-echoed-id",
                known={"C13:client-assumes-ticket-resumption":
                       shape["how"] == "ticket"})
        I.check(same_suite, "resumed-suite-must-match-the-session")
    elif kind == "full-handshake":
        I.check(not (confirmed and same_suite) or
                shape["how"] == "ticket" and not decided["offered_sid"],
                "confirmed-resumption-is-taken")
    else:
        I.check(confirmed and not same_suite,
                "alert-only-for-inconsistent-resumption",
                known={"C13:client-assumes-ticket-resumption":
                       shape["how"] == "ticket"})


# ---------------------------------------------------------------------------
# C13.5  TLS 1.3 server: PSK / ticket selection
# ---------------------------------------------------------------------------
import sys as _sys
import tlslite.handshakehelpers as hhelp
from tlslite.errors import TLSIllegalParameterException


class _Tick(object):
    def __init__(self, version, suite, created, chain):
        self.protocol_version = version
        self.cipher_suite = suite
        self.creation_time = created
        self.client_cert_chain = chain
        self.master_secret = bytearray(48)
        self.nonce = bytearray(1)


def _shapes_c13_5(tier):
    kinds = ("garbage", "ticket", "external")
    out = []
    for k1 in kinds:
        for k2 in kinds:
            out.append(dict(ids=[k1, k2]))
    return out


@obligation("C13.5", _shapes_c13_5,
            functions=["tlslite.tlsconnection:TLSConnection."
                       "_serverTLS13Handshake"],
            assumes=["the PSK selection loop of _serverTLS13Handshake is run "
                     "with a ClientHello offering two identities, each "
                     "garbage / a decryptable ticket / an external PSK; "
                     "_tryDecrypt returns a ticket whose protocol version, "
                     "PRF hash, creation time and stored client chain are "
                     "symbolic selections; verify_binder is a recorder whose "
                     "verdict is symbolic; the clock is symbolic; the "
                     "function is cut at the first key-exchange call and the "
                     "selection state is read there"],
            patches=lambda s: (hello_proxies(), hello_stubs()),
            max_paths=20000, also=("C05",))
def c13_5(I, shape):
    """a PSK identity is selected only if its binder verified, the ticket is
    for this protocol version and PRF and has not expired; the client
    identity stored in a ticket is attributed to the peer only when that
    ticket was selected"""
    now = I.int_range(0, 40, "now")
    lifetime = I.int_range(1, 10, "ticketLifetime")
    victim_chain = object()
    idents = []
    tickets = {}
    for n, kind in enumerate(shape["ids"]):
        name = bytearray(b"id%d" % n + b"x" * 40)
        idents.append(X.PskIdentity().create(name, 0))
        if kind == "ticket":
            ver = I.pick([(3, 4), (3, 3)], "tver")
            suite = I.pick([CipherSuite.TLS_AES_128_GCM_SHA256,
                            CipherSuite.TLS_AES_256_GCM_SHA384], "tsuite")
            created = I.int_range(0, 20, "created")
            chain = I.pick([None, victim_chain], "tchain")
            tickets[bytes(name)] = _Tick(ver, suite, created, chain)
    psk_ext = X.PreSharedKeyExtension().create(
        idents, [bytearray(32) for _ in idents])
    modes = X.PskKeyExchangeModesExtension().create([1])
    ch = M.ClientHello().create((3, 3), bytearray(32), bytearray(32),
                                [CipherSuite.TLS_AES_128_GCM_SHA256],
                                extensions=std_extensions(True) +
                                [modes, psk_ext])

    class S(object):
        pass
    settings = HandshakeSettings().validate()
    settings.ticketKeys = [bytearray(32)]
    settings.ticketLifetime = lifetime
    settings.pskConfigs = [(bytearray(b"id%d" % n + b"x" * 40),
                            bytearray(b"secret"), "sha256")
                           for n, k in enumerate(shape["ids"])
                           if k == "external"]
    conn = tc.TLSConnection(None)
    conn.version = (3, 4)
    conn._handshake_hash = None
    conn._pre_client_hello_handshake_hash = None

    def try_decrypt(stg, identity=None, ticket=None):
        t = tickets.get(bytes(identity.identity))
        if t is None:
            return None, None
        prf = "sha384" if t.cipher_suite == \
            CipherSuite.TLS_AES_256_GCM_SHA384 else "sha256"
        return (identity.identity, bytearray(b"respsk"), prf), t
    conn._tryDecrypt = try_decrypt
    verified = []
    verdict = I.pick([True, False], "binder_ok")

    def verify_binder(client_hello, hashes, position, secret, prf,
                      external=True):
        verified.append((position, bytes(secret), prf, external))
        if not verdict:
            raise TLSIllegalParameterException("Binder does not verify")
        return True
    probe = {}

    def cut_kex(group, version):
        f = _sys._getframe(1)
        probe.update(selected=f.f_locals.get("selected_psk"),
                     psk=f.f_locals.get("psk"),
                     chain=f.f_locals.get("resumed_client_cert_chain"))
        raise Cut("key-exchange")
    conn._getKEX = cut_kex

    class Clock(object):
        @staticmethod
        def time():
            return now
    saved = (hhelp.HandshakeHelpers.verify_binder, tc.time)
    hhelp.HandshakeHelpers.verify_binder = staticmethod(verify_binder)
    tc.time = Clock
    conn.sock = type("S", (), {"flush": lambda self: None,
                               "buffer_writes": False})()
    sent = []
    conn._sendMsg = lambda m, *a, **k: iter(sent.append(m) or ())
    conn._shutdown = lambda r: None
    try:
        try:
            for r in conn._serverTLS13Handshake(
                    settings, ch, CipherSuite.TLS_AES_128_GCM_SHA256,
                    RSA_KEY, RSA_CHAIN, (3, 4), "rsa_pss_rsae_sha256", None,
                    False, None, None):
                pass
            I.fail("handshake-ran-past-the-cut")
            return
        except Cut:
            kind = "selected-or-not"
        except TLSLocalAlert as e:
            kind = "alert"
            alert = e
        except (PathAbort, Unsupported):
            raise
        except Exception as e:
            I.fail("PSK selection raised %s" % type(e).__name__,
                   detail=repr(e))
            return
    finally:
        hhelp.HandshakeHelpers.verify_binder = saved[0]
        tc.time = saved[1]
    if kind == "alert":
        I.check(len(verified) == 1 and not verdict and bool(
            alert.description == AlertDescription.illegal_parameter),
            "alert-only-for-a-failed-binder")
        return
    sel = probe["selected"]
    if sel is None:
        I.check(probe["psk"] is None, "no-psk-without-selection")
        I.check(probe["chain"] is None,
                "no-client-identity-without-a-selected-ticket")
        I.check(verified == [], "no-binder-check-without-selection")
        return
    kind_sel = shape["ids"][sel]
    I.check(kind_sel != "garbage", "garbage-identity-never-selected")
    I.check(verified == [(sel, bytes(probe["psk"]), "sha256",
                          kind_sel == "external")] and verdict,
            "selected-identity-had-its-own-binder-verified")
    if kind_sel == "ticket":
        t = tickets[bytes(idents[sel].identity)]
        I.check(t.protocol_version == (3, 4), "ticket-for-this-version")
        I.check(t.cipher_suite == CipherSuite.TLS_AES_128_GCM_SHA256,
                "ticket-prf-matches-the-suite")
        I.check(NOT(t.creation_time + lifetime < now),
                "expired-ticket-never-selected")
        I.check(probe["chain"] is t.client_cert_chain,
                "client-identity-is-the-selected-tickets")
    else:
        I.check(probe["chain"] is None,
                "external-psk-carries-no-client-identity")
    # earlier identities were skipped for a reason
    for j in range(sel):
        kj = shape["ids"][j]
        if kj == "ticket":
            tj = tickets[bytes(idents[j].identity)]
            I.check(tj.protocol_version != (3, 4) or tj.cipher_suite !=
                    CipherSuite.TLS_AES_128_GCM_SHA256 or
                    bool(tj.creation_time + lifetime < now),
                    "usable-earlier-ticket-not-skipped")
