"""F2 (C12): ct_check_cbc_mac_and_pad accepted SSLv3 bodies whose padding
length is inconsistent with where the MAC sits (mac_start clamped to 0).
Exit 1 if the defect is present in /repo, 0 if not."""
import sys
sys.path.insert(0, "/repo")
from tlslite.utils.constanttime import ct_check_cbc_mac_and_pad
from tlslite.mathtls import createMAC_SSL
from tlslite.utils.compat import compatHMAC

key = bytearray(b"k" * 20)
seq = bytearray(8)
ctype = 23
import hashlib
mac = createMAC_SSL(key, digestmod=hashlib.sha1)
m = mac.copy()
m.update(compatHMAC(seq + bytearray([ctype, 0, 0])))     # MAC of empty data
digest = bytearray(m.digest())
bad = []
for last in range(0, 32):
    body = digest + bytearray(11) + bytearray([last])     # 32 bytes
    ok = ct_check_cbc_mac_and_pad(body, mac, seq, ctype, (3, 0), 16)
    print("last byte %2d -> %s" % (last, ok))
    if ok and last != 11:
        bad.append(last)
print("accepted although only 11 is consistent:", bad)
sys.exit(1 if bad else 0)
