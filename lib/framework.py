"""Obligation registry, job runner (16 workers), verdicts, replay, evidence."""
import hashlib
import importlib
import inspect
import json
import multiprocessing
import os
import signal
import sys
import time
import traceback

VERIF = os.path.dirname(os.path.dirname(os.path.abspath(__file__)))
if VERIF not in sys.path:
    sys.path.insert(0, VERIF)

import z3  # noqa: E402

from symx import core  # noqa: E402
from symx.core import (Ctx, ConcreteCtx, Inputs, PathAbort, Unsupported,  # noqa
                       BudgetExceeded, explore, SymBool, SymInt, _b, _is_sym)

REGISTRY = {}


class Obligation(object):
    def __init__(self, oid, fn, shapes, functions, assumes, patches=None,
                 title="", max_paths=20000, timeout=(120, 900),
                 query_timeout=(60, 600), also=()):
        self.id = oid
        self.prop = oid.split(".")[0]
        # other properties whose check also runs this obligation (the same
        # mechanism carries several properties)
        self.also = tuple(also)
        self.fn = fn
        self.shapes = shapes
        self.functions = functions
        self.assumes = assumes
        self.patches = patches or (lambda shape: ([], []))
        self.title = title or (fn.__doc__ or "").strip().split("\n")[0]
        self.max_paths = max_paths
        self.timeout = timeout
        self.query_timeout = query_timeout
        self.module = fn.__module__


def obligation(oid, shapes, functions, assumes=(), patches=None, title="",
               max_paths=20000, timeout=(120, 900), query_timeout=(60, 600),
               also=()):
    """decorator registering fn(I, shape) as obligation <oid>

    shapes: callable tier -> list of JSON-able shape dicts
    functions: names of the real functions executed ("module:qualname")
    assumes: list of assumptions / stubs (strings, echoed into evidence)
    patches: callable shape -> (proxies, stubs); each a list of
             (module, attribute, value).  proxies are bound only during
             symbolic execution, stubs also during native replay."""
    def deco(fn):
        REGISTRY[oid] = Obligation(oid, fn, shapes, list(functions),
                                   list(assumes), patches, title, max_paths,
                                   timeout, query_timeout, also)
        return fn
    return deco


# ---------------------------------------------------------------------------
# control-flow exceptions (BaseException: analysed code cannot swallow them)
# ---------------------------------------------------------------------------

class CexFound(BaseException):
    def __init__(self, label, values, model, known_key=None, sizes=None):
        self.label = label
        self.values = values
        self.model = model
        self.known_key = known_key
        self.sizes = sizes or {}


class Reproduced(BaseException):
    def __init__(self, label, detail=None):
        self.label = label
        self.detail = detail


class Inconclusive(BaseException):
    def __init__(self, msg, sizes=None):
        BaseException.__init__(self, msg)
        self.sizes = sizes


class HInputs(Inputs):
    """Inputs + the assertion interface used by obligation bodies"""

    def __init__(self, values=None, known=None, skip_known=()):
        Inputs.__init__(self, values)
        self.reached = 0
        self.checks = 0
        self.sat = 0
        self.unsat = 0
        self.unknown = 0
        self.trivial = 0
        self.known_hits = {}
        self.known = known or {}
        self.skip_known = set(skip_known)
        self.notes = []

    def note(self, s):
        if len(self.notes) < 5:
            self.notes.append(str(s))

    def reach(self):
        self.reached += 1

    def check(self, cond, label, known=None, detail=None):
        """assert cond on the current path.

        known: optional dict  finding-key -> predicate (bool/SymBool over the
        inputs) describing the input class of a recorded known finding; a
        counterexample inside such a class is reported as KNOWN-FINDING, one
        outside it as a violation."""
        self.reached += 1
        self.checks += 1
        if self.concrete:
            if _is_sym(cond):
                raise Unsupported("symbolic condition in concrete mode")
            if not cond:
                raise Reproduced(label, detail() if callable(detail)
                                 else detail)
            return
        c = Ctx.cur
        if not _is_sym(cond):
            if cond:
                self.trivial += 1
                return
            neg = z3.BoolVal(True)
        else:
            neg = z3.Not(_b(cond))
        known = dict(known or {})
        # only findings actually listed in known_findings.json may suppress
        known = dict((k, v) for k, v in known.items() if k in self.known)
        excl = [z3.Not(_b(p)) for p in known.values()]
        r, m = self._oneshot(c, [neg] + excl)
        if r == z3.unsat:
            if excl:
                for k, p in known.items():
                    if k in self.skip_known or k in self.known_hits:
                        continue
                    r2, m = self._oneshot(c, [neg, _b(p)])
                    if r2 == z3.sat:
                        raise CexFound(label, self.model_values(m), m, k,
                                       self.sizes())
            self.unsat += 1
            return
        if r == z3.unknown:
            self.unknown += 1
            raise Inconclusive("solver unknown at check %r" % label,
                               self.sizes())
        self.sat += 1
        raise CexFound(label, self.model_values(m), m, None, self.sizes())

    def sizes(self):
        return dict((nm, v.size()) for nm, v in self.decl.items())

    @staticmethod
    def _oneshot(c, extra):
        """decide pc and extra with a fresh (non-incremental) solver: z3's
        one-shot strategy is far stronger on UF+BV than the incremental core
        used for path forking"""
        s = z3.Solver()
        s.set("timeout", int(c.query_timeout_ms or 60000))
        for lit in c.pc:
            s.add(lit)
        for e in extra:
            s.add(e)
        c.nq += 1
        t = time.time()
        r = s.check()
        c.tsolve += time.time() - t
        return r, (s.model() if r == z3.sat else None)

    def fail(self, label, known=None, detail=None):
        """the current path itself is a violation if feasible"""
        self.check(False, label, known=known, detail=detail)

    def cover(self, label):
        self.reached += 1


class patched(object):
    def __init__(self, plist):
        self.plist = plist
        self.saved = []

    def __enter__(self):
        for mod, name, val in self.plist:
            missing = object()
            # read through __dict__ so that descriptors (classmethod,
            # staticmethod, property) of a patched class are saved as such
            # and inherited attributes are deleted again, not copied down
            try:
                old = vars(mod).get(name, missing)
            except TypeError:
                old = getattr(mod, name, missing)
            self.saved.append((mod, name, old, missing))
            setattr(mod, name, val)
        return self

    def __exit__(self, *a):
        for mod, name, old, missing in reversed(self.saved):
            if old is missing:
                try:
                    delattr(mod, name)
                except AttributeError:
                    pass
            else:
                setattr(mod, name, old)
        self.saved = []
        return False


def _alarm(signum, frame):
    raise BudgetExceeded("job wall-clock budget")


def load_known():
    p = os.path.join(VERIF, "known_findings.json")
    if not os.path.exists(p):
        return {}
    with open(p) as f:
        d = json.load(f)
    return dict((e["key"], e) for e in d.get("known", []))


def run_job(job):
    """executed in a worker process: one (obligation, shape)"""
    oid, shape, tier, seed = job
    obl = REGISTRY[oid]
    ti = 0 if tier == "quick" else 1
    t0 = time.time()
    res = dict(obligation=oid, shape=shape, status="pass", paths=0,
               queries=0, solver_s=0.0, sat=0, unsat=0, unknown=0, reached=0,
               trivial=0, known=[], detail=None, notes=[])
    z3.set_param("smt.random_seed", int(seed) & 0x7fffffff)
    known = load_known()
    signal.signal(signal.SIGALRM, _alarm)
    signal.alarm(int(obl.timeout[ti]))
    stubs = []
    try:
        proxies, stubs = obl.patches(shape)
        skip_known = []
        while True:
            agg = dict(reached=0, sat=0, unsat=0, unknown=0, trivial=0)
            cex = None
            try:
                with patched(stubs), patched(proxies):
                    def body():
                        I = HInputs(known=known, skip_known=skip_known)
                        body.I = I
                        try:
                            return obl.fn(I, shape)
                        finally:
                            for k in agg:
                                agg[k] += getattr(I, k)
                            res["notes"] = (res["notes"] + I.notes)[:5]
                    for _c, _r in explore(
                            body, max_paths=obl.max_paths,
                            query_timeout_ms=1000 * obl.query_timeout[ti],
                            deadline=None):
                        pass
            except CexFound as e:
                cex = e
            finally:
                st = getattr(explore, "stats", None) or {}
                res["paths"] += st.get("paths", 0)
                res["queries"] += st.get("queries", 0)
                res["solver_s"] += st.get("tsolve", 0.0)
                for k in agg:
                    res[k] = res.get(k, 0) + agg[k]
            if cex is None:
                break
            # native replay of the counterexample
            rep = replay_native(obl, shape, cex.values, cex.model, stubs)
            record = dict(obligation=oid, shape=shape, label=cex.label,
                          inputs=cex.values, native=rep)
            if rep["reproduced"]:
                if cex.known_key is not None:
                    res["known"].append(dict(key=cex.known_key,
                                             label=cex.label,
                                             inputs=cex.values,
                                             native=rep))
                    skip_known.append(cex.known_key)
                    continue     # look for violations outside the known class
                res["status"] = "violation"
                res["detail"] = record
            else:
                # The solver's assignment did not replay (it may lean on an
                # interpretation of an abstracted function that the real
                # arithmetic does not share).  Search for a concrete witness
                # natively: a replayed violation is a violation however it
                # was found; without one the job is inconclusive.
                found = witness_search(obl, shape, cex.sizes, cex.values,
                                       seed, stubs)
                if found:
                    res["status"] = "violation"
                    res["detail"] = dict(
                        obligation=oid, shape=shape, label=found[1]["label"],
                        inputs=found[0], native=found[1],
                        note="solver counterexample did not replay; this "
                             "witness was found by native search around it")
                else:
                    res["status"] = "inconclusive"
                    res["detail"] = dict(
                        reason="counterexample did not reproduce natively",
                        record=record)
            break
        if res["status"] == "pass" and res["reached"] == 0:
            res["status"] = "inconclusive"
            res["detail"] = dict(reason="vacuous: no feasible path reached "
                                 "an assertion")
    except BudgetExceeded as e:
        res["status"] = "inconclusive"
        res["detail"] = dict(reason="budget: %s" % e)
    except Inconclusive as e:
        res["status"] = "inconclusive"
        res["detail"] = dict(reason=str(e))
        if e.sizes:
            # the solver gave up (unknown/timeout): a pass cannot be
            # declared, but a concrete violation may still be exhibited
            found = witness_search(obl, shape, e.sizes, {}, seed, stubs)
            if found:
                res["status"] = "violation"
                res["detail"] = dict(
                    obligation=oid, shape=shape, label=found[1]["label"],
                    inputs=found[0], native=found[1],
                    note="solver answered unknown; witness found by native "
                         "search")
    except Unsupported as e:
        res["status"] = "inconclusive"
        res["detail"] = dict(reason="unsupported: %s" % e,
                             tb=traceback.format_exc()[-1500:])
    except Exception as e:
        res["status"] = "inconclusive"
        res["detail"] = dict(reason="harness error: %r" % e,
                             tb=traceback.format_exc()[-2500:])
    finally:
        signal.alarm(0)
    res["wall_s"] = time.time() - t0
    return res


def witness_search(obl, shape, sizes, near, seed, stubs, tries=40):
    """native search for a concrete violating input (random values, half of
    the time mixed with the solver's assignment)"""
    import random as _random
    rnd = _random.Random(int(seed) + 12345)
    for _try in range(tries):
        vals = dict((nm, rnd.getrandbits(bits)) for nm, bits in sizes.items())
        if _try % 2 and near:
            for nm in list(vals):
                if rnd.random() < 0.5 and nm in near:
                    vals[nm] = near[nm]
        rep = replay_native(obl, shape, vals, None, stubs)
        if rep["reproduced"]:
            return vals, rep
    return None


def replay_native(obl, shape, values, model, stubs=None, uf_table=None):
    """run the obligation body natively (no proxies) on concrete inputs"""
    if stubs is None:
        _p, stubs = obl.patches(shape)
    cctx = Ctx.cur = ConcreteCtx(model, uf_table)
    out = dict(reproduced=False, label=None, detail=None)
    try:
        with patched(stubs):
            I = HInputs(values=values)
            try:
                obl.fn(I, shape)
            except Reproduced as r:
                out["reproduced"] = True
                out["label"] = r.label
                out["detail"] = _jsonable(r.detail)
            except PathAbort:
                out["detail"] = "native run: assumption not met"
            except (Unsupported, Inconclusive, BudgetExceeded) as e:
                out["detail"] = "native run: %r" % (e,)
            except Exception as e:
                out["detail"] = "native run raised %r\n%s" % (
                    e, traceback.format_exc()[-1500:])
    finally:
        Ctx.cur = None
    out["uf_table"] = cctx.uf_log
    return out


def _jsonable(x):
    try:
        json.dumps(x)
        return x
    except Exception:
        return repr(x)


def source_hash(names):
    """hash of the current source of the encoded functions (shows that the
    encoding was regenerated from /repo's working tree on this run)"""
    h = hashlib.sha256()
    out = {}
    for n in names:
        modname, _, qual = n.partition(":")
        try:
            mod = importlib.import_module(modname)
            obj = mod
            for part in qual.split("."):
                if part:
                    obj = getattr(obj, part)
            obj = getattr(obj, "__func__", obj)
            src = inspect.getsource(obj)
        except Exception as e:
            src = "<unavailable: %r>" % (e,)
        d = hashlib.sha256(src.encode()).hexdigest()[:12]
        out[n] = d
        h.update(d.encode())
    return h.hexdigest()[:16], out


def run_property(prop, tier="quick", seed=0, only=None, jobs=None,
                 verbose=False, modules=None):
    t0 = time.time()
    for m in modules or []:
        importlib.import_module(m)
    obls = [o for o in REGISTRY.values()
            if o.prop == prop or prop in o.also]
    if only:
        obls = [o for o in obls if o.id in only or
                any(o.id.startswith(x) for x in only)]
    obls.sort(key=lambda o: [int(x) if x.isdigit() else x
                             for x in o.id.replace("C", "").split(".")])
    joblist = []
    for o in obls:
        # an obligation shared with another property ("also") is explored at
        # thorough depth under its home property only; elsewhere it runs with
        # its quick shapes (stated in the evidence as shared_at_quick_depth)
        t = tier if (o.prop == prop or tier == "quick") else "quick"
        for sh in o.shapes(t):
            joblist.append((o.id, sh, t, seed))
    # longest-looking jobs first does not matter much; keep stable order
    nproc = jobs or int(os.environ.get("VERIF_JOBS", "0")) or \
        min(16, os.cpu_count() or 4)
    results = []
    if nproc == 1 or len(joblist) <= 1:
        for j in joblist:
            results.append(_run_job_isolated(j))
    else:
        ctx = multiprocessing.get_context("fork")
        with ctx.Pool(nproc, maxtasksperchild=1) as pool:
            for r in pool.imap_unordered(run_job, joblist, chunksize=1):
                results.append(r)
                if verbose:
                    print("  %-8s %-60s %-12s paths=%d q=%d %.1fs" % (
                        r["obligation"], json.dumps(r["shape"])[:60],
                        r["status"], r["paths"], r["queries"], r["wall_s"]),
                        flush=True)
    return summarise(prop, tier, seed, obls, results, time.time() - t0)


def _run_job_isolated(job):
    ctx = multiprocessing.get_context("fork")
    with ctx.Pool(1, maxtasksperchild=1) as pool:
        return pool.apply(run_job, (job,))


def summarise(prop, tier, seed, obls, results, wall):
    os.makedirs(os.path.join(VERIF, "evidence"), exist_ok=True)
    os.makedirs(os.path.join(VERIF, "replays"), exist_ok=True)
    lines = []
    viol = [r for r in results if r["status"] == "violation"]
    inc = [r for r in results if r["status"] == "inconclusive"]
    known_hits = {}
    for r in results:
        for k in r["known"]:
            known_hits.setdefault(k["key"], k)
    known_db = load_known()
    for key in sorted(known_hits):
        lines.append("KNOWN-FINDING: property=%s %s" % (
            prop, known_db.get(key, {}).get("what", key)))
    replay_paths = []
    for r in viol[:200]:
        d = r["detail"]
        blob = json.dumps(d, sort_keys=True, default=repr)
        hh = hashlib.sha256(blob.encode()).hexdigest()[:10]
        path = os.path.join(VERIF, "replays", "%s-%s.json" % (prop, hh))
        with open(path, "w") as f:
            json.dump(dict(property=prop, tier=tier, **d), f, indent=1,
                      default=repr)
        replay_paths.append(path)
        if len(replay_paths) <= 8:
            lines.append("VIOLATION property=%s replay=%s" % (prop, path))
            lines.append("  obligation=%s label=%r shape=%s" % (
                d["obligation"], d["label"], json.dumps(d["shape"])))
    if len(viol) > 8:
        lines.append("  ... and %d more violating (obligation, shape) jobs"
                     % (len(viol) - 8))
    for r in inc[:12]:
        lines.append("INCONCLUSIVE property=%s obligation=%s shape=%s: %s" % (
            prop, r["obligation"], json.dumps(r["shape"]),
            (r["detail"] or {}).get("reason")))
        if (r["detail"] or {}).get("tb"):
            lines.append("    " + r["detail"]["tb"].replace("\n", "\n    "))
    # evidence
    per_obl = {}
    for o in obls:
        shash, per_fn = source_hash(o.functions)
        per_obl[o.id] = dict(title=o.title, functions=per_fn,
                             source_hash=shash, assumptions=o.assumes,
                             shapes=0, passed=0, paths=0, queries=0, sat=0,
                             unsat=0, unknown=0, trivially_true=0,
                             assertions_reached=0, solver_s=0.0, wall_s=0.0,
                             path_budget=o.max_paths)
    distinct = 0
    samples = []
    for r in results:
        a = per_obl[r["obligation"]]
        a["shapes"] += 1
        a["passed"] += r["status"] == "pass"
        for k_src, k_dst in (("paths", "paths"), ("queries", "queries"),
                             ("sat", "sat"), ("unsat", "unsat"),
                             ("unknown", "unknown"),
                             ("trivial", "trivially_true"),
                             ("reached", "assertions_reached")):
            a[k_dst] += r.get(k_src, 0)
        a["solver_s"] = round(a["solver_s"] + r["solver_s"], 3)
        a["wall_s"] = round(a["wall_s"] + r["wall_s"], 3)
        if r["reached"] > 0 and r["queries"] > 0:
            distinct += 1
        if len(samples) < 12 and r["status"] == "pass" and (
                not samples or samples[-1]["obligation"] != r["obligation"]):
            samples.append(dict(obligation=r["obligation"], shape=r["shape"],
                                paths=r["paths"], queries=r["queries"],
                                unsat=r["unsat"], notes=r.get("notes", [])))
    if not samples and results:
        r = results[0]
        samples.append(dict(obligation=r["obligation"], shape=r["shape"],
                            status=r["status"]))
    n_obl = len(results)
    n_dis = sum(1 for r in results if r["status"] == "pass")
    assumptions = []
    for o in obls:
        for s in o.assumes:
            s = "%s: %s" % (o.id, s)
            if s not in assumptions:
                assumptions.append(s)
    ev = dict(
        property_id=prop, tier=tier, seed=int(seed), level="other",
        wall_s=round(wall, 2), violations=len(viol),
        assumptions=assumptions,
        coverage=dict(
            explanation=(
                "Bounded symbolic verification of the real functions from "
                "/repo's working tree: the functions listed per obligation "
                "are executed on proxy objects (symx) or translated from "
                "their AST, every feasible path within the stated shapes is "
                "explored, and each assertion is decided by z3 (unsat = "
                "holds for every value of the symbolic inputs of that shape)."
                " A sat answer is replayed natively before it is reported. "
                "Nothing is claimed outside the enumerated shapes."),
            obligations=n_obl, discharged=n_dis,
            checker_cmd="./check %s --tier %s" % (prop, tier),
            trusted_base=["z3 %s" % z3.get_version_string(),
                          "symx proxy engine (/verif/symx)",
                          "CPython %d.%d" % sys.version_info[:2],
                          "crypto models listed in assumptions"],
            evaluations=sum(r["queries"] for r in results),
            distinct_nontrivial=distinct,
            rule=("one case = one (obligation, shape) pair; counted when at "
                  "least one feasible path reached an assertion and at least "
                  "one solver query was made; evaluations = solver queries"),
            samples=samples,
            per_obligation=per_obl,
            inconclusive=[dict(obligation=r["obligation"], shape=r["shape"],
                               reason=(r["detail"] or {}).get("reason"))
                          for r in inc],
            known_findings_seen=sorted(known_hits),
            shared_at_quick_depth=sorted(
                o.id for o in obls if o.prop != prop) if tier != "quick"
            else [],
            slowest=[dict(obligation=r["obligation"], shape=r["shape"],
                          wall_s=round(r["wall_s"], 1), paths=r["paths"])
                     for r in sorted(results, key=lambda r: -r["wall_s"])[:12]],
            total_paths=sum(r["paths"] for r in results),
            solver_s=round(sum(r["solver_s"] for r in results), 2),
            exhaustive=False))
    with open(os.path.join(VERIF, "evidence", "%s.json" % prop), "w") as f:
        json.dump(ev, f, indent=1, default=repr)
    if tier != "quick":
        # keep the last thorough run next to the (more often rewritten)
        # evidence file
        with open(os.path.join(VERIF, "evidence",
                               "%s.thorough.json" % prop), "w") as f:
            json.dump(ev, f, indent=1, default=repr)
    lines.append("%s tier=%s: %d/%d (obligation,shape) jobs discharged, "
                 "%d violation(s), %d inconclusive, %d paths, %d queries, "
                 "%.1fs" % (prop, tier, n_dis, n_obl, len(viol), len(inc),
                            ev["coverage"]["total_paths"],
                            ev["coverage"]["evaluations"], wall))
    code = 1 if viol else (2 if inc or not results else 0)
    return code, lines
