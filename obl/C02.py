"""C02 - a record is accepted only if it is exactly what the peer sent next."""
from lib.framework import obligation
from symx.core import (SymBytes, SymInt, AND, OR, NOT, IFF, IMPLIES, seq_eq,
                       is_concrete_mode, assume, ite)
from models.fixtures import (rl_proxies, MemSock, make_layer, install_state,
                             drain, newbuf, MODES)
from models.crypto import ForgeryGuard

import tlslite.recordlayer as rl
from tlslite.messages import Message
from tlslite.constants import ContentType
from tlslite.errors import (TLSBadRecordMAC, TLSDecryptionFailed,
                            TLSRecordOverflow, TLSUnexpectedMessage,
                            TLSIllegalParameterException, TLSAbruptCloseError)
from obl.C01 import RL_FUNCS

REJECT = (TLSBadRecordMAC, TLSDecryptionFailed, TLSRecordOverflow,
          TLSUnexpectedMessage, TLSIllegalParameterException)

ASSUMES = [
    "MAC unforgeability: for every reader-side MAC evaluation H(x), either x "
    "is an input the honest writer MACed under that key, or H(x) occurs "
    "nowhere in the attacker-supplied bytes nor in their decryption "
    "(ForgeryGuard); AEAD: a tag verifies only for a (nonce, aad, ciphertext) "
    "triple the writer sealed",
    "block/stream cipher: one bijection per length for all calls (stateless: "
    "the model most favourable to the attacker - reordered or dropped "
    "records still decrypt)",
    "writer emits two records r0, r1 starting at a symbolic 48-bit sequence "
    "number; the reader stands at seq+s and is handed ONE arbitrary symbolic "
    "record (symbolic type and version bytes, enumerated body length, "
    "symbolic body): covers bit flips, truncation, extension, replay, "
    "reorder, drop, splicing within the stated lengths",
    "proxies as in C01.1",
]


def _shapes_c02_1(tier):
    out = []
    for mode, (kind, versions) in MODES.items():
        if mode == "null":
            continue
        for ver in versions:
            if kind in ("cbc", "cbc-etm"):
                combos = [(16, 20)] if tier == "quick" else \
                    [(16, 20), (8, 20)]
            elif kind == "stream":
                combos = [(None, 20)]
            else:
                combos = [(None, 0)]
            for block, mac in combos:
                for (n0, n1) in ([(3, 3), (2, 5)] if tier == "quick"
                                 else [(3, 3), (2, 5), (0, 1), (17, 17)]):
                    for s in (0, 1):
                        # truncation / extension by one unit: sized to the
                        # hour the thorough tier has (the first sizing - five
                        # length pairs, three deltas each, three CBC
                        # parameter sets - did not finish in 70 minutes)
                        for delta in ((0,) if tier == "quick" or
                                      (n0, n1) != (3, 3) else (0, -1, 1)):
                            if (n0, n1) == (17, 17) and block == 16 and \
                                    kind == "cbc" and tuple(ver) >= (3, 2):
                                # two 17-byte records with explicit IV under
                                # MAC-then-encrypt: 19-21 minutes per job,
                                # at the edge of the job budget - not claimed
                                continue
                            if delta == 1 and block == 16:
                                # a record extended by a 16-byte block: the
                                # padding/MAC query ran into the solver's
                                # limits (unknown / 20 min) - not claimed
                                continue
                            out.append(dict(mode=mode, version=list(ver),
                                            block=block, mac=mac, n0=n0,
                                            n1=n1, s=s, other=False,
                                            delta=delta))
                        if n0 != n1:
                            # body length of the *other* record
                            out.append(dict(mode=mode, version=list(ver),
                                            block=block, mac=mac, n0=n0,
                                            n1=n1, s=s, other=True, delta=0))
    return out


@obligation("C02.1", _shapes_c02_1,
            functions=RL_FUNCS, assumes=ASSUMES,
            patches=lambda shape: (rl_proxies(), []),
            timeout=(300, 1800), max_paths=5000, also=("C08",))
def c02_1(I, shape):
    """acceptance implies (type, plaintext) == the writer's next record"""
    mode = shape["mode"]
    version = tuple(shape["version"])
    block = shape["block"] or 16
    kind = MODES[mode][0]
    ss, snd = make_layer(version, mode)
    rs, rcv = make_layer(version, mode)
    seq = I.uint(48, "seq")
    nonce = None
    if kind == "aead":
        nonce = I.bytes(4 if mode == "aead-explicit" else 12, "fixednonce")
    pool = []
    install_state(snd, snd._writeState, mode, "k", shape["mac"], block,
                  fixed_nonce=nonce, stateless=True)
    install_state(rcv, rcv._readState, mode, "k", shape["mac"], block,
                  fixed_nonce=nonce, stateless=True, pool=pool)
    snd._writeState.seqnum = seq
    if mode in ("cbc", "cbc-etm") and version >= (3, 2):
        snd.fixedIVBlock = I.bytes(block, "iv")
    honest_mac = []
    if snd._writeState.macContext is not None:
        snd._writeState.macContext.log = honest_mac
    sent = []
    bodies = []
    for k, n in enumerate((shape["n0"], shape["n1"])):
        ctype = I.byte("ctype")
        assume(OR([ctype == t for t in ContentType.all]))
        if mode == "tls13":
            # CCS is never protected in TLS 1.3; not a protected record
            assume(ctype != ContentType.change_cipher_spec)
        data = I.bytes(n, "p")
        sent.append((ctype, data))
        before = len(ss.out)
        drain(snd.sendRecord(Message(ctype, newbuf(list(data)))))
        bodies.append(len(ss.out) - before - 5)
    s = shape["s"]
    # the adversary's record
    L = bodies[1 - s] if shape["other"] else bodies[s] + shape["delta"] * (
        block if kind in ("cbc", "cbc-etm") else 1)
    if L < 0:
        return
    atype = I.byte("atype")
    # SSLv2 framing (first byte not a TLS content type) is C02.2
    assume(OR([atype == t for t in ContentType.all]))
    aver = I.bytes(2, "aver")
    abody = I.bytes(L, "abody")
    pool.append(list(abody))
    if kind == "aead":
        rcv._readState.encContext.honest = \
            [(w[0], w[1], w[2]) for w in snd._writeState.encContext.seal_log]
    else:
        rcv._readState.macContext.guard = ForgeryGuard(honest_mac, pool)
    rcv._readState.seqnum = seq + s
    rs.inp = newbuf([atype, aver[0], aver[1], L >> 8, L & 0xff] + list(abody))
    try:
        res = drain(rcv.recvRecord())
    except REJECT:
        I.cover("rejected")
        return
    except Exception as e:
        I.fail("unexpected exception type %s from recvRecord"
               % type(e).__name__)
        return
    hdr, parser = res
    if mode == "tls13" and hdr.type == ContentType.change_cipher_spec:
        # RFC 8446 D.4: an unprotected CCS may appear at any time; the record
        # layer passes it through unauthenticated by design (its content is
        # policed by _getMsg, see C06).  It must not consume a sequence
        # number nor yield protected data.
        I.check(AND(rcv._readState.seqnum == seq + s,
                    seq_eq(parser.bytes, abody)), "tls13-ccs-passthrough")
        return
    ctype, data = sent[s]
    n = len(data)
    I.check(AND(hdr.type == ctype, len(parser.bytes) == n,
                seq_eq(parser.bytes, data) if len(parser.bytes) == n
                else False),
            "accepted-record-is-the-next-one-sent",
            detail=lambda: dict(got_type=hdr.type, want_type=ctype,
                                got=bytes(parser.bytes).hex(),
                                want=bytes(data).hex()))
    I.check(rcv._readState.seqnum == seq + s + 1, "seqnum-advanced-once")


# ---------------------------------------------------------------------------
# C02.2  SSLv2-framed bytes on a protected TLS connection are rejected
# ---------------------------------------------------------------------------

def _shapes_c02_2(tier):
    out = []
    for mode, (kind, versions) in MODES.items():
        if mode == "null":
            continue
        for ver in (versions if tier != "quick" else versions[-1:]):
            for hdr in (2, 3):
                for L in ((0, 5, 24) if tier == "quick"
                          else (0, 1, 5, 16, 17, 24, 40)):
                    out.append(dict(mode=mode, version=list(ver), hdr=hdr,
                                    L=L))
    return out


@obligation("C02.2", _shapes_c02_2,
            functions=["tlslite.recordlayer:RecordLayer.recvRecord",
                       "tlslite.recordlayer:RecordSocket._recvHeader",
                       "tlslite.recordlayer:RecordSocket.recv",
                       "tlslite.messages:RecordHeader2.parse"],
            assumes=["first byte is any value outside ContentType.all; 2- and "
                     "3-byte SSLv2 headers; record length enumerated, all "
                     "other header bits and the body symbolic",
                     "cipher/MAC models as in C02.1 (no unforgeability "
                     "assumption needed: rejection must not depend on it)"],
            patches=lambda shape: (rl_proxies(), []), also=("C08",))
def c02_2(I, shape):
    """no SSLv2-framed record is accepted once a TLS read state is active"""
    mode = shape["mode"]
    version = tuple(shape["version"])
    rs, rcv = make_layer(version, mode)
    nonce = None
    if MODES[mode][0] == "aead":
        nonce = I.bytes(4 if mode == "aead-explicit" else 12, "fixednonce")
    install_state(rcv, rcv._readState, mode, "k", 20, 16, fixed_nonce=nonce,
                  stateless=True)
    rcv._readState.seqnum = I.uint(48, "seq")
    L = shape["L"]
    b0 = I.byte("b0")
    assume(AND([b0 != t for t in ContentType.all]))
    if shape["hdr"] == 2:
        assume((b0 & 0x80) == 0x80)
        assume((b0 & 0x7f) == (L >> 8))
        hdr = [b0, L & 0xff]
    else:
        assume((b0 & 0x80) == 0)
        assume((b0 & 0x3f) == (L >> 8))
        hdr = [b0, L & 0xff, I.byte("padlen")]
    rs.inp = newbuf(hdr + list(I.bytes(L, "body")))
    try:
        res = drain(rcv.recvRecord())
    except REJECT:
        I.cover("rejected")
        return
    except Exception as e:
        I.fail("unexpected exception type %s from recvRecord"
               % type(e).__name__)
        return
    I.fail("sslv2-framed-record-accepted-on-protected-connection")


# ---------------------------------------------------------------------------
# C02.3  TLS 1.3 inner plaintext: content type and padding removal
# ---------------------------------------------------------------------------

def _shapes_c02_3(tier):
    return [dict(n=n) for n in (range(0, 12) if tier == "quick"
                                else range(0, 40))]


@obligation("C02.3", _shapes_c02_3,
            functions=["tlslite.recordlayer:RecordLayer._tls13_de_pad"],
            assumes=["inner plaintext of n arbitrary bytes"],
            patches=lambda shape: (rl_proxies(), []), also=("C08",))
def c02_3(I, shape):
    """_tls13_de_pad: (content, type) = split at the last non-zero byte"""
    n = shape["n"]
    data = I.bytes(n, "inner")
    try:
        out, ctype = rl.RecordLayer._tls13_de_pad(newbuf(list(data)))
    except TLSUnexpectedMessage:
        I.check(AND([b == 0 for b in data]), "all-zero-iff-rejected")
        return
    except Exception as e:
        I.fail("unexpected exception type %s from _tls13_de_pad"
               % type(e).__name__)
        return
    k = len(out)
    I.check(AND(k < n, data[k] == ctype, ctype != 0,
                AND([data[j] == 0 for j in range(k + 1, n)]),
                seq_eq(out, data[:k])), "depad-splits-at-last-nonzero")


# ---------------------------------------------------------------------------
# C02.4  early-data tolerance ends with the first accepted record
# ---------------------------------------------------------------------------
from models.conn import conn_proxies, make_conn, split_records, CONN_ASSUMES
from obl.C17 import _run as _run_gen
from tlslite.constants import (HandshakeType, AlertDescription, AlertLevel)
from tlslite.errors import (TLSLocalAlert, TLSAlert, TLSAbruptCloseError)
from symx.core import PathAbort, Unsupported

SEQS = ["F A B", "A F", "A C F", "C F A B", "A C B", "F F A B", "A B F",
        "C A C F", "F C A B"]


def _shapes_c02_4(tier):
    out = []
    for seq in SEQS:
        for limit in ("roomy", "tight"):
            out.append(dict(seq=seq, limit=limit))
    return out


@obligation("C02.4", _shapes_c02_4,
            functions=["tlslite.tlsrecordlayer:TLSRecordLayer._getNextRecord",
                       "tlslite.tlsrecordlayer:TLSRecordLayer."
                       "_getNextRecordFromSocket",
                       "tlslite.tlsrecordlayer:TLSRecordLayer._getMsg",
                       "tlslite.recordlayer:RecordLayer.recvRecord",
                       "tlslite.recordlayer:RecordLayer.early_data_ok",
                       "tlslite.defragmenter:Defragmenter"],
            assumes=CONN_ASSUMES + [
                "TLS 1.3 server connection with the AEAD model installed as "
                "read state (unforgeability: a tag verifies only for what "
                "the sender sealed) and the early-data tolerance armed "
                "(early_data_ok, max_early_data = 64 or 24); the wire is a "
                "sequence over A/B = the two halves of a genuine protected "
                "Finished message, C = a plaintext ChangeCipherSpec record, "
                "F = a record of 20 symbolic bytes that is not one of the "
                "sender's"],
            patches=lambda s: (conn_proxies(), []), max_paths=2000,
            also=("C06",))
def c02_4(I, shape):
    """records that fail authentication are skipped only before the first
    record was accepted and within max_early_data; after that - also across
    an interleaved ChangeCipherSpec or between handshake fragments - a
    non-authenticating record is a fatal bad_record_mac"""
    words = shape["seq"].split()
    maxed = 64 if shape["limit"] == "roomy" else 24
    conn, sock = make_conn((3, 4), False, [], session=False)
    rcv = conn._recordLayer
    nonce = I.bytes(12, "fixednonce")
    install_state(rcv, rcv._readState, "tls13", "k", 0, 16,
                  fixed_nonce=nonce)
    ss, snd = make_layer((3, 4), "tls13")
    install_state(snd, snd._writeState, "tls13", "k", 0, 16,
                  fixed_nonce=nonce)
    rcv.early_data_ok = True
    rcv.max_early_data = maxed
    vd = I.bytes(32, "verify_data")
    fin = [HandshakeType.finished, 0, 0, 32] + list(vd)
    halves = {"A": fin[:10], "B": fin[10:]}
    wire = []
    forged = []
    for w in words:
        if w in ("A", "B"):
            before = len(ss.out)
            drain(snd.sendRecord(Message(ContentType.handshake,
                                         newbuf(halves[w]))))
            wire += list(ss.out)[before:]
        elif w == "C":
            wire += [ContentType.change_cipher_spec, 3, 3, 0, 1, 1]
        else:
            body = I.bytes(20, "forged")
            forged.append(body)
            wire += [ContentType.application_data, 3, 3, 0, 20] + list(body)
    rcv._readState.encContext.honest = \
        [(x[0], x[1], x[2]) for x in snd._writeState.encContext.seal_log]
    sock.inp = newbuf(wire)
    try:
        msg = _run_gen(conn._getMsg(ContentType.handshake,
                                HandshakeType.finished, 32))
        exc = None
    except (TLSAlert, TLSAbruptCloseError) as e:
        msg, exc = None, e
    except (PathAbort, Unsupported):
        raise
    except Exception as e:
        I.fail("_getMsg raised %s" % type(e).__name__, detail=repr(e)[:200])
        return
    # specification: walk the word
    accepted = False
    skipped = 0
    verdict = "eof"
    got = []
    for w in words:
        if w in ("A", "B"):
            accepted = True
            got.append(w)
            if got == ["A", "B"]:
                verdict = "message"
                break
        elif w == "F":
            if not accepted and skipped + 20 < maxed:
                skipped += 20
            else:
                verdict = "bad_record_mac"
                break
    sent = split_records(sock.out)
    if verdict == "message":
        I.check(exc is None and msg is not None and
                bool(seq_eq(list(msg.verify_data), list(vd))),
                "genuine-message-delivered",
                detail=lambda: dict(exc=repr(exc)))
    elif verdict == "bad_record_mac":
        I.check(isinstance(exc, TLSLocalAlert) and
                exc.description == AlertDescription.bad_record_mac,
                "non-authenticating-record-is-fatal-once-a-record-was-"
                "accepted-or-the-allowance-is-used-up",
                detail=lambda: dict(exc=repr(exc), seq=shape["seq"]))
        I.check(len(sent) >= 1 and sent[-1][0] == ContentType.alert and
                conn.closed, "alert-sent-and-connection-closed")
    else:
        I.check(isinstance(exc, TLSAbruptCloseError),
                "incomplete-message-then-eof",
                detail=lambda: dict(exc=repr(exc)))
