"""Regenerates /verif/MANIFEST.json from the table below (run after editing)."""
import json
import os

VERIF = os.path.dirname(os.path.dirname(os.path.abspath(__file__)))

T = "bounded symbolic execution of the real functions (symx proxies -> z3 bit-vectors/UF), unsat per path and shape; sat replayed natively"

CHECKS = {
    "C01": dict(
        text="The real RecordLayer.sendRecord -> RecordSocket -> recvRecord path is executed for every protection mode (null, stream MtE, CBC MtE with implicit/explicit IV, CBC EtM, AEAD with explicit and XOR nonce, TLS 1.3 inner plaintext with a padding callback) on symbolic plaintext, content type, sequence number, IV and nonce; z3 proves per enumerated length that the reader yields exactly the type and bytes written, consumes the whole wire, and that both sequence numbers advance once per record.",
        note="Ciphers/MACs replaced by bijection / uninterpreted-function models (the real ones are C09's subject); payload lengths limited to the enumerated ones (quick: 9 lengths around block boundaries per mode, two records in sequence for three modes); fragmentation and read-buffer obligations cover limits scaled down to <= 16.",
        design="5/C01", technique=T),
    "C02": dict(
        text="The real recvRecord is handed one ARBITRARY symbolic record (symbolic type/version/body, enumerated length) while an honest writer has emitted two records; under the MAC/AEAD unforgeability assumption z3 proves that acceptance implies the yielded type and plaintext are exactly those of the record the writer sent at the reader's sequence number, and that every rejection is one of the record layer's integrity/decoding exceptions. SSLv2-framed bytes on a protected connection and TLS 1.3 inner-plaintext de-padding are separate obligations.",
        note="Unforgeability and bijectivity are assumptions (stated in evidence); block/stream ciphers are modelled statelessly, which only strengthens the adversary; lengths enumerated; timing not modelled.",
        design="5/C02", technique=T),
    "C03": dict(
        text="Decision code of the hello processing, driven as units on real connection objects. Server: the real _serverGetClientHello receives a ClientHello with symbolic legacy version, cipher-suite ids, FALLBACK_SCSV presence and supported_versions entries under a family of 13 validated settings and RSA/ECDSA credentials; z3 proves that whatever is returned lies inside the server's version range, passes the settings/version/certificate filters, was offered by the client (suite, version, signature scheme), and that a fallback SCSV is honoured; everything else ends in a fatal alert on the wire. Client: the real _handshakeClientAsyncHelper builds its own ClientHello and receives a ServerHello with symbolic version fields, suite, compression, random tail, session-id echo and EMS: it proceeds only with a version inside its settings, an offered suite the version defines, null compression, an echoed session id in TLS 1.3, EMS when required, and never past a downgrade sentinel. The suite filters themselves are proved against the IANA-name oracle (C20.2) and the server's resumption conditions in C13.1. Live pair (F-PAIR): two real TLSConnection endpoints run whole handshakes against each other over an in-memory pipe with hash/HMAC, (EC)DH, signatures and AEAD as uninterpreted-function models and every random value symbolic; for TLS 1.3 (external PSK in psk_ke/psk_dhe_ke, certificate, certificate + client authentication; three suites) and TLS 1.0-1.2 (RSA, DHE_RSA, ECDHE_RSA, ECDHE_ECDSA; GCM, ChaCha20, CBC with/without EtM, RC4; EMS on/off) z3 proves that honest peers complete and hold equal versions, suites, flags, chains and secrets, that those secrets, the Finished values and the exporter output equal the RFC 8446 7.1 / RFC 5246 / RFC 7627 / RFC 5705 values computed independently from the bytes seen on the wire, and that every protected record carries the tag/MAC of its epoch's key and sequence number (C03.6, C03.7).",
        note="Pair obligations: one suite/key-exchange per shape, x25519 / ffdhe2048, no HelloRetryRequest, SRP and anonymous suites not paired, ALPN/SNI/record-size-limit agreement only through the unit obligations; groups/signature lists are fixed in the symbolic hellos of the unit obligations.",
        design="5/C03", technique=T),
    "C04": dict(
        text="Transcript completeness on a real connection (every handshake message sent through _sendMsg/_queue_message or returned by _getMsg - incl. NewSessionTicket, with symbolic bodies and a symbolic record split - is hashed exactly once, whole, in order; non-handshake records are not; the wire carries exactly the hashed bytes); HandshakeHashes over the hash model (every digest covers everything fed, copies are independent, SSLv3 digest per RFC 6101); _getFinished completes only if CCS is 0x01 and verify_data equals calc_key(peer label, transcript) with the read state switched exactly once; the downgrade defences (server FALLBACK_SCSV, client sentinels) are the C03.2/C03.3 obligations, which run under this property too. On-path attacker between two live endpoints (F-PAIR, C04.4-C04.7): for each enumerated offset of either direction's byte stream one byte is replaced by a symbolic different value (TLS 1.3 PSK and certificate handshakes, TLS 1.2 ECDHE/GCM and RSA/CBC, a TLS 1.0-1.3 mixed configuration for downgrade), or the k-th record is dropped, duplicated or swapped; under collision resistance of the hash/HMAC/PRF models, AEAD ciphertext integrity and signature unforgeability z3 proves that the endpoints never both complete with different versions, suites, secrets, names or chains, never complete below TLS 1.3 when both support it, and never raise a non-TLS exception.",
        note="Quick tier samples stream offsets (every 8th in the client direction, all of the TLS 1.3 PSK server flight), thorough enumerates all; the two length bytes of each record header are left to C01/C02; multi-byte rewrites only as whole-record drop/duplicate/swap; HelloRetryRequest flows not attacked.",
        design="5/C04", technique=T),
    "C05": dict(
        text="Proof sites driven with the peer's public key as a stub whose verify() is a symbolic predicate V: verifyServerKeyExchange accepts only a (hash, signature) pair the client offered for the certificate's key type, over exactly hash(client_random || server_random || params), only if V holds, never an empty signature; the TLS 1.3 PSK/ticket selection attributes a stored client identity only when that ticket was selected after its binder verified (C13.5); own signatures are emitted only after self-verification (C10.6); DSA acceptance is exact (C10.3); the SRP server refuses A = 0 mod N for every A; the Checker passes iff the fingerprint matches; and no error path that is meant to abort is a discarded generator call (AST, regenerated each run). Live pair (C05.2, C05.3): one endpoint runs the real handshake code with a signing oracle that does not hold the certificate's key (arbitrary-but-wrong signature, bit flip, other key, other transcript, empty, short, long) or sends a wrong Finished, as server and as client, in TLS 1.3, TLS 1.2 (ECDHE_RSA, DHE_RSA, ECDHE_ECDSA) and TLS 1.0: under signature unforgeability z3 proves the verifying side never completes and records no peer chain.",
        note="Post-handshake authentication and delegated credentials are not driven; SRP proof only as the A mod N check; signature mathematics is C10; certificate path validation is not done by the library.",
        design="5/C05", technique=T),
    "C06": dict(
        text="The gate every received message passes, TLSRecordLayer._getMsg(expected content types, expected handshake types), is executed on a real TLSConnection for every literal argument pair found at the library's call sites (read from the AST on each run), both roles and versions, with the next record's content type, handshake type and body symbolic: z3 proves that a message is returned only if its content type and handshake type were expected, and that everything else ends in a fatal alert that is on the wire before the exception (unexpected_message for a wrong type), the peer's own alert, or a decode error. Renegotiation attempts on an established connection are proved to be answered with no_renegotiation without touching state; the TLS 1.3 framing rules (CCS only as 0x01 in compatibility mode, no interleaving, key-change messages end on a record boundary, no empty non-application records, no empty record skipped while a handshake message is awaited) are separate obligations.",
        note="Null record protection (F-CONN); one or two records per obligation; the expectation sequences of whole handshake flows (which _getMsg arguments follow which) are covered only for the flows driven in C03/C04 obligations, not for every key-exchange middle; whole-trace languages by skip/duplicate/swap of honest traces need live runs and are not claimed.",
        design="5/C06", technique=T),
    "C08": dict(
        text="Parser totality: every message class (constructed as _getMsg constructs it) and every extension class in every context is run on arbitrary symbolic bytes of each enumerated length; z3 shows that every feasible path ends in a value or in an exception type that _getMsg maps to an alert (SyntaxError family, TLSIllegalParameterException) and that the read index stays inside the buffer. The record layer's handling of undecodable framing is covered by C02.2.",
        note="Bounded by the enumerated input lengths (quick: extension payloads 0..8, messages up to 49 bytes); X.509 bodies are opaque; wall time and heap are not measured (no allocation sized by an unchecked peer length is the proxy); connection-level obligations are being added.",
        design="5/C08", technique=T),
    "C13": dict(
        text="Server session-ID resumption (real _serverGetClientHello with a cache holding one session whose resumable flag, suite, EMS, EtM and server name are symbolic selections, and a ClientHello with symbolic EMS/EtM/SNI): resumes only a live, resumable session whose suite is still allowed and offered and whose EMS/EtM/SNI are consistent, otherwise full handshake or alert, never an exception. TLS 1.2 tickets (_ticket_to_session/_tryDecrypt with an unforgeable AEAD model keyed by ticket key, symbolic clock/creation time/lifetime, rotated key sets, arbitrary forged ticket bytes): a session comes back only under a current key and unexpired. TLS 1.3 PSK selection (loop of _serverTLS13Handshake with symbolic ticket version/PRF/age/binder verdict): selected only if binder verified, version and PRF match, not expired; client identity only from the selected ticket. Client: resumption is assumed only when the server echoed the offered session ID, a declined ticket leads to a full handshake. Session.valid(); the cache itself (C18.1). Two consecutive live connections (F-PAIR, C13.6/C13.7): TLS 1.3 tickets resume exactly when intact, under a current key and hash-compatible, with the second key schedule equal to RFC 8446 over the resumption PSK of the first connection, the suite and the client identity kept, and a full handshake otherwise (rewritten ticket byte, rotated key, other suite, client-side expiry); TLS 1.0/1.2 session-ID and ticket resumption keeps master secret, suite, EMS, EtM and server name, and an unknown id/ticket, dropped EMS/EtM, other suite or SNI never yields a resumed connection with other properties.",
        note="Pair obligations use one suite family (ECDHE_RSA AES-128-CBC for TLS <= 1.2), a stub clock and fixed ticket_age_add; server-side expiry with symbolic time is the unit obligation C13.5.",
        design="5/C13", technique=T),
    "C14": dict(
        text="RecordSocket._sockRecvAll/_sockSendAll are executed against a socket stub whose every recv()/send() either would-blocks or transfers a symbolic number of bytes: under every such schedule the value produced is exactly the next `length` symbolic bytes, nothing is read beyond them, one 0 is yielded per would-block, EOF is TLSAbruptCloseError and the loop never spins; everything passed to send is transmitted once and in order. The Defragmenter delivers the same two symbolic handshake messages (and an interleaved alert) wherever the stream is cut. TLSConnection.read() on a symbolic wire gives the same outcome (data, alert, abrupt close, closed flag) under every chunk schedule as under one-shot delivery. The blocking read/write/close are shown (AST pattern, regenerated each run) to be exactly 'exhaust the async generator', and AsyncStateMachine._checkAssert to admit at most one active operation for all flag combinations.",
        note="Streams of <= 7 bytes at socket level, 2-3 fragments in the defragmenter, chunk sizes {1, 2, all} and one would-block at connection level; whole handshakes under arbitrary schedules follow only by composition (all socket reads go through _sockRecvAll).",
        design="5/C14", technique=T),
    "C15": dict(
        text="Parse-first identity: for every message and extension class and arbitrary symbolic input bytes of each enumerated length, z3 proves on every accepting path that the parser consumed exactly the declared length and that write(parse(b)) == b byte for byte (for the four classes that normalise by design: that the normal form is a fixed point). This gives at once: no trailing bytes swallowed, no inner/outer length disagreement accepted, no read past the end, and parse(write(v)) == v for every v in the image of parse.",
        note="Bounded by the enumerated lengths (extension payloads 0..8 quick / 0..16 thorough; messages up to 49/57 bytes); X.509 bodies opaque; value-first checks for values outside the image of parse (2^16/2^24-sized lists) are not covered.",
        design="5/C15", technique=T),
    "C09": dict(
        text="Kernels as exact bit-vector equivalences against an independent transcription of the RFC (ChaCha20 quarter/double round, 20-round block function, serialisation, keystream XOR for all keys, nonces, counters and plaintexts of the enumerated lengths; Poly1305 with its two field operations abstracted); modes and derivations with the kernels/hashes as uninterpreted functions: CBC and CTR incl. state carried across calls, AES-GCM, AES-CCM/CCM-8, ChaCha20-Poly1305 seal/open (open inverts seal and accepts exactly the right tag), 3DES-EDE-CBC keying, P_hash/PRF/PRF_SSL, HKDF-Expand(-Label)/Derive-Secret, and calc_key's PRF/seed/transcript choice per version, suite and label.",
        note="SHA/MD5 are the C library (uninterpreted); AES/DES round functions are abstracted as bijections (rijndael.py/Des kernels not yet encoded); GHASH multiplication is abstracted in the GCM mode check; HMAC is the standard library's in this environment (the fallback class in tlshmac.py is never defined); lengths as enumerated.",
        design="5/C09", technique=T),
    "C10": dict(
        text="DSA verify/sign on a toy group with (r, s), digest and nonce symbolic over their whole range: acceptance is exactly the FIPS 186 condition (0<r<q, 0<s<q, r == (g^u1 y^u2 mod p) mod q) and every signature produced verifies. Finite-field DH on a toy safe prime: a peer share is accepted iff 2 <= Y < p-1 and the result is not in {1, p-1}, wrong lengths are refused, both sides agree. X25519/X448 wrapper: wrong-length shares refused, an all-zero result refused for every possible result of the scalar multiplication (uninterpreted). Every signing site reachable as a unit (ServerKeyExchange for RSA-PKCS1/PSS, ECDSA, DSA, EdDSA; CertificateVerify) with a private key whose sign() returns arbitrary symbolic bytes and whose verify() is a symbolic predicate: a message is produced iff the fresh signature verified over the same bytes, else TLSInternalError.",
        note="Toy groups (p=23); RSA PKCS#1/PSS encoding checks, X25519 ladder steps and python-ecdsa internals are not encoded yet; TLS 1.3 CertificateVerify creation sites are covered only by the discarded-generator lint (C05.8).",
        design="5/C10", technique=T),
    "C11": dict(
        text="RSAKey.decrypt is executed with the private-key operation returning an arbitrary symbolic encoded message and with hashing/HMAC as uninterpreted functions; z3 proves for every EM and ciphertext of the enumerated modulus sizes that it never raises, consults no randomness, performs exactly one private operation, returns the real message iff the PKCS#1 v1.5 padding is valid and otherwise the synthetic message whose length is chosen from the ciphertext-keyed PRF alone (independent of the defect class), and None exactly for publicly invalid ciphertexts. RSAKeyExchange.processClientKeyExchange is proved to return 48 bytes on every path with identical RNG use, the real premaster iff length and version bytes are right.",
        note="Modulus sizes 16/32/48 bytes (quick) up to 64 (thorough); SHA-256/HMAC uninterpreted; timing/cache side channels are outside (the code itself documents CPython is not constant time); the wire behaviour of the whole server flow (no early alert) is not yet driven.",
        design="5/C11", technique=T),
    "C16": dict(
        text="Two real TLS 1.3 TLSConnection objects joined by in-memory pipes, record protection an AEAD model whose key is named after the traffic-secret term (HKDF 'traffic upd' a free constructor): for every operation word over {A/B write symbolic data, A/B send KeyUpdate requested / not requested} of the enumerated lengths z3/the path explorer shows data delivered exactly and in order, both directions' keys in step, session secrets equal on both sides and equal to the installed keys. Dispatch of post-handshake messages (symbolic handshake type and request value: only KeyUpdate/NewSessionTicket/PHA accepted, unknown KeyUpdate value = illegal_parameter with no key change, control never delivered as data), heartbeat (response echoes exactly the symbolic request payload, short padding ignored, wrong mode fatal, not negotiated = unexpected_message) and the preconditions of locally initiated control messages are separate obligations.",
        note="Words of length <= 2 plus six longer ones (quick), <= 3 (thorough); key derivation is a term model, not real HKDF (C09.12 covers HKDF); post-handshake authentication is covered under C05 only as far as its obligations go.",
        design="5/C16", technique=T),
    "C17": dict(
        text="On a real TLSConnection (F-CONN) with a symbolic alert level/description, symbolic data and symbolic ignoreAbruptClose: close_notify ends read() quietly with the data before it delivered, the session resumable, a close_notify answered, later reads empty and writes raising the closed-connection error; any other alert surfaces as TLSRemoteAlert with exactly the peer's level and description and invalidates the session; EOF without alert (at a record boundary or inside a header) raises TLSAbruptCloseError unless opted out. close() with and without closeSocket, send failure during handshake and data messages (peer alert surfaced, socket error propagated, shutdown), and _handshakeWrapperAsync under every failure kind at a symbolic step (connection shut down, record state cleared, session not resumable, exception unchanged, fatal alert on the wire before a local alert) are further obligations.",
        note="Null record protection; faults injected at the first send or at end of input, not at every I/O index of complete handshakes.",
        design="5/C17", technique=T),
    "C18": dict(
        text="SessionCache: every history of n get/set operations (operation kinds and IDs chosen by symbolic selectors - the same ID may be stored repeatedly - symbolic non-decreasing clock, symbolic maxAge and validity flags) is executed on the real class and z3 proves it refines the plain sequential specification (lookup succeeds iff the session last stored under the ID is younger than the limit, valid and not evicted; size bound; only KeyError). VerifierDB/BaseDB: histories over set/get/del/contains/keys refine a dict. Python_RSAKey._rawPrivateKeyOp on toy keys: result = m^d mod n for every residue from any invariant blinding pair, invariant re-established at lock release. On every explored path the mutex is replaced by a recording lock and the shared attributes sit behind access hooks: every access to shared state happens while the lock is held and the lock is released on every exit - with a real mutex that makes every interleaving equivalent to one of the sequential histories.",
        note="Thread interleavings are not enumerated: atomicity is derived from the lock discipline (rely/guarantee); preemption inside C-level dict/list operations is left to the GIL; RSA algebra on toy moduli (<= 12 bits); dbm file back ends are I/O and outside; histories of 3-4 (quick) / 5 (thorough) operations.",
        design="5/C18", technique=T),
    "C20": dict(
        text="The suite identifier is a symbolic 16-bit value pushed through the real parameter tables (_getCipherSettings, _getMacSettings, _getHMACMethod, calcPendingStates, calcTLS1_3PendingState, _calcTLS1_3KeyUpdate, filterForVersion, _filterSuites, canonicalCipherName/MacName, Session accessors); the membership tests of the real code split it into one path per id class including 'in no list', and on each path the key/IV/tag/MAC lengths, cipher family, MAC and PRF hash, key-block slicing and role assignment, minimum version and key-exchange family are compared with an independent parse of the IANA name; the list families are proved to partition the negotiable ids; _filterSuites is proved to admit a suite iff its cipher, MAC and key-exchange names are enabled (each relevant name dropped or swapped for every other name of the vocabulary).",
        note="Cipher/MAC constructors and the PRF/HKDF are recorders (what is built from which slice is checked, not the primitive); observation through live handshakes and the key-exchange class selection chains in tlsconnection.py are not covered yet.",
        design="5/C20", technique=T),
    "C19": dict(
        text="HandshakeSettings.validate() is executed on receivers whose list-valued fields are selected by symbolic selectors from the documented vocabularies (plus an unknown token, duplicates, empty list) and whose scalar fields are symbolic integers; on every path a deep snapshot shows the receiver unchanged (also when ValueError is raised), the result is a fixed point of validate(), contains only algorithms the running installation supports, lies inside the documented vocabularies, and z3 proves that each scalar is accepted exactly when it lies inside its documented domain (key sizes and their ordering, record_size_limit, ticket lifetime/count, max_early_data, dc_valid_time, version pair, EMS implication, boolean flags).",
        note="One list field (0..2 elements quick, 0..3 thorough) or one scalar group varies at a time, the rest are defaults; the sentence 'any two compatible validated settings complete a handshake' needs live endpoints and is not claimed here (nearest obligations: C03).",
        design="5/C19", technique=T),
    "C12": dict(
        text="For every enumerated (version, MAC, body length, block size) the real ct_check_cbc_mac_and_pad is executed on a fully symbolic body, sequence number and content type and z3 proves it equivalent to the plain specification (MAC modelled as an uninterpreted function of its whole input); the ct_* helpers are proved for all 32-bit arguments. Bounded by the enumerated lengths (quick: 5 lengths per MAC + two window-edge lengths; thorough: every n <= 80 and window edges to 400).",
        note="HMAC/SSLv3 MAC abstracted as uninterpreted function per input length; lengths outside the enumerated shapes are not covered; z3 and the symx engine are trusted (engine validated by lib/selfcheck.py and native replay of every counterexample).",
        design="5/C12", technique=T),
}

NOT_APPLICABLE = {
    "C07": "The second implementation (OpenSSL) is compiled C behind CPython's ssl FFI: it cannot be executed symbolically or encoded for a solver; running it live is differential testing, a different technique. The tlslite-ng side of interoperability is covered by C15 (codecs), C09 (key schedule), C01/C02 (record protection) and C20 (suite meaning).",
}

PENDING = "no solver-based check registered yet for this property (build in progress; see DESIGN.md section 5 for the planned obligations)"

ALL = ["C%02d" % i for i in range(1, 21)]


def main():
    checks = []
    for pid in ALL:
        if pid not in CHECKS:
            continue
        c = CHECKS[pid]
        checks.append(dict(
            property_id=pid,
            quick_cmd="./check %s --tier quick" % pid,
            thorough_cmd="./check %s --tier thorough" % pid,
            evidence_file="/verif/evidence/%s.json" % pid,
            replay_cmd_template="./check %s --replay {path}" % pid,
            engine="symx",
            level_claimed=dict(category="other", text=c["text"],
                               design_ref="DESIGN.md " + c["design"]),
            level_note=c["note"],
            technique=c["technique"]))
    na = []
    for pid in ALL:
        if pid in CHECKS:
            continue
        na.append(dict(property_id=pid,
                       reason=NOT_APPLICABLE.get(pid, PENDING)))
    m = dict(
        version=1,
        setup_cmd="./setup.sh",
        hooks=dict(guard="TLSLITE_NG_VERIF",
                   enable="none needed: all interception is run-time rebinding of module globals inside the checker process; /repo carries no hooks",
                   baseline_off_cmd="cd /repo && /venv/bin/python -m pytest -ra -q -p no:cacheprovider --timeout=900 --continue-on-collection-errors",
                   source_commits=[], add_only=True),
        engines=[dict(name="symx", path="/verif/symx",
                      serves_properties=sorted(CHECKS),
                      kind_free_text="proxy-object symbolic execution of the real Python functions into z3 bit-vector / uninterpreted-function terms; DFS over paths; per-path unsat queries; native replay of sat models")],
        checks=checks,
        not_applicable=na,
        notes="Solver-based checking of the real code. Exit codes of ./check: 0 all obligations discharged, 1 violation (replayed natively, VIOLATION line), 2 inconclusive/harness error (never on the unchanged tree). Defects found and repaired are listed in known_findings.json as 'fixed' entries.")
    with open(os.path.join(VERIF, "MANIFEST.json"), "w") as f:
        json.dump(m, f, indent=1)
        f.write("\n")


if __name__ == "__main__":
    main()
