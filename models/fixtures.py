"""Shared fixtures: in-memory sockets, record-layer pair (F-RL), proxy lists."""
import errno
import socket

from symx.core import (SymBytes, SymInt, mk_bytearray, sym_from_bytes,
                       sym_max, sym_min, is_concrete_mode, seq_eq, Unsupported)
from models.crypto import (StubMac, StubBlockCipher, StubStreamCipher,
                           StubAEAD)

import tlslite.recordlayer as rl
import tlslite.messages as msgs
import tlslite.utils.codec as codec
import tlslite.utils.constanttime as ct
import tlslite.utils.compat as compat


def py_compare_digest(a, b):
    """the pure-Python fallback of constanttime.py (used when hmac has no
    compare_digest); proxies cannot enter the C implementation"""
    if len(a) != len(b):
        return False
    result = 0
    for x, y in zip(a, b):
        result |= x ^ y
    return result == 0


def _ident(x):
    return x


def rl_proxies():
    """module-global rebinding for the record-layer call tree"""
    return [
        (rl, "bytearray", mk_bytearray),
        (msgs, "bytearray", mk_bytearray),
        (codec, "bytearray", mk_bytearray),
        (ct, "bytearray", mk_bytearray),
        (codec, "bytes_to_int", sym_from_bytes),
        (rl, "compatHMAC", _ident),
        (ct, "compatHMAC", _ident),
        (ct, "max", sym_max),
        (ct, "min", sym_min),
        (rl, "ct_compare_digest", py_compare_digest),
    ]


def newbuf(items=()):
    if is_concrete_mode():
        return bytearray(items)
    return SymBytes(items)


class MemSock(object):
    """in-memory socket: everything sent is appended to .out, recv() serves
    from .inp; EOF when .inp is exhausted"""

    def __init__(self):
        self.out = newbuf()
        self.inp = newbuf()
        self.closed = False
        self.sends = 0

    def send(self, d):
        self.sends += 1
        self.out += d
        return len(d)

    def sendall(self, d):
        self.out += d

    def recv(self, n):
        n = int(n)
        r = self.inp[:n]
        self.inp = self.inp[n:]
        return r

    def close(self):
        self.closed = True

    def shutdown(self, how):
        pass

    def settimeout(self, t):
        pass

    def gettimeout(self):
        return None


def drain(gen):
    """run a tlslite generator the way its callers do: the first value that
    is not a would-block marker (0/1) is the result; a generator that only
    finishes (send side) returns None"""
    for r in gen:
        if isinstance(r, int) and r in (0, 1):
            raise AssertionError("transport would block in a model socket")
        return r
    return None


MODES = {
    # name: (kind, versions)
    "null":   ("null", [(3, 0), (3, 1), (3, 2), (3, 3)]),
    "stream": ("stream", [(3, 0), (3, 1), (3, 2), (3, 3)]),
    "cbc":    ("cbc", [(3, 0), (3, 1), (3, 2), (3, 3)]),
    "cbc-etm": ("cbc-etm", [(3, 1), (3, 2), (3, 3)]),
    "aead-explicit": ("aead", [(3, 3)]),
    "aead-xor": ("aead", [(3, 3)]),
    "tls13": ("aead", [(3, 4)]),
}


def install_state(layer, state, mode, key, mac_len, block, I=None,
                  fixed_nonce=None, stateless=False, pool=None):
    """fill a ConnectionState the way calcPendingStates/changeXState would,
    with model cipher/MAC objects named after `key` (same name = same key)"""
    if mode == "null":
        return
    if mode in ("stream", "cbc", "cbc-etm"):
        state.macContext = StubMac("mac" + key, mac_len,
                                   128 if mac_len == 48 else 64)
        if mode == "stream":
            state.encContext = StubStreamCipher(key, stateless, pool)
        else:
            state.encContext = StubBlockCipher(
                key, block, "3des" if block == 8 else "aes128",
                stateless, pool)
        state.encryptThenMAC = (mode == "cbc-etm")
    elif mode == "aead-explicit":
        state.encContext = StubAEAD(key, "aes128gcm", 12, 16)
        state.fixedNonce = fixed_nonce
    elif mode == "aead-xor":
        state.encContext = StubAEAD(key, "chacha20-poly1305", 12, 16)
        state.fixedNonce = fixed_nonce
    elif mode == "tls13":
        state.encContext = StubAEAD(key, "aes128gcm", 12, 16)
        state.fixedNonce = fixed_nonce
    else:
        raise ValueError(mode)


def make_layer(version, mode):
    s = MemSock()
    layer = rl.RecordLayer(s)
    layer.version = version
    if mode == "tls13":
        layer.tls13record = True
    return s, layer
