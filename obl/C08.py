"""C08 - malformed peer input fails cleanly, promptly, within bounded memory."""
from lib.framework import obligation
from symx.core import (SymBytes, SymInt, AND, OR, NOT, seq_eq, assume,
                       is_concrete_mode, PathAbort, Unsupported)
from models.fixtures import newbuf
from models.codec_env import codec_proxies, CODEC_ASSUMES
from models import codec_targets as CT
from obl.C15 import (parse_ext, parse_msg, _shapes_ext, _shapes_msg,
                     CODEC_FUNCS, DECODE_ERRORS)

import tlslite.messages as M
import tlslite.extensions as X
from tlslite.utils.codec import Parser
from tlslite.errors import TLSAbruptCloseError


def _shapes_c08_1(tier):
    # SessionTicketPayload is the server's own authenticated data, not peer
    # input: its parser is C15's and C13's subject, not C08's
    return _shapes_ext(tier) + [
        s for s in _shapes_msg(tier)
        if not (CT.RAW.get(s["msg"]) or {}).get("own_data")]


@obligation("C08.1", _shapes_c08_1,
            functions=CODEC_FUNCS + [
                "tlslite.messages:*.parse (every message class)",
                "tlslite.extensions:*.parse (every extension class, every "
                "context)"],
            assumes=CODEC_ASSUMES + [
                "input = arbitrary symbolic bytes of the enumerated length "
                "(extensions: concrete type and length header + symbolic "
                "payload; handshake messages: 3-byte length = n-3)",
                "allowed outcomes: a value, or SyntaxError family "
                "(DecodeError, BadCertificateError) / "
                "TLSIllegalParameterException - exactly what _getMsg maps "
                "to alerts"],
            patches=lambda s: (codec_proxies(), []), max_paths=30000,
            timeout=(300, 1200))
def c08_1(I, shape):
    """parser totality: every path ends in a value or a decode-error type
    that _getMsg turns into an alert; the read index never exceeds the
    buffer"""
    try:
        if "ext" in shape:
            buf, obj, exc, p = parse_ext(I, shape)
        else:
            buf, obj, exc, p = parse_msg(I, shape)
    except (PathAbort, Unsupported):
        raise
    except Exception as e:
        I.fail("parser raised %s (not a decode error)" % type(e).__name__,
               detail=repr(e))
        return
    I.check(AND(p.index >= 0, p.index <= len(buf)), "index-within-buffer")


# ---------------------------------------------------------------------------
# C08.2  semantic checks of the hello processing: one extension payload of a
#        ClientHello is arbitrary
# ---------------------------------------------------------------------------
from models.conn import record, split_records
from models.hello import (hello_proxies, hello_stubs, HELLO_ASSUMES,
                          server_conn, run_server_hello, ch_bytes,
                          std_extensions, raw_ext, settings_family, Cut,
                          RSA_CHAIN, RSA_KEY)
from tlslite.constants import (ContentType, ExtensionType, AlertLevel,
                               CipherSuite, GroupName)
from tlslite.handshakesettings import HandshakeSettings
import tlslite.extensions as _X

_CH_EXT_TYPES = None


def ch_ext_types():
    global _CH_EXT_TYPES
    if _CH_EXT_TYPES is None:
        t = sorted(_X.TLSExtension._universalExtensions.keys())
        # extended_master_secret / encrypt_then_mac / post_handshake_auth /
        # early_data have no class: generic payload
        t += [ExtensionType.extended_master_secret,
              ExtensionType.encrypt_then_mac,
              ExtensionType.post_handshake_auth, ExtensionType.early_data,
              0xfafa]
        _CH_EXT_TYPES = sorted(set(t))
    return _CH_EXT_TYPES


def _shapes_c08_2(tier):
    out = []
    for t in ch_ext_types():
        top = 6 if tier == "quick" else 10
        if t == ExtensionType.server_name:
            top = min(top, 6)       # host name bytes are decoded one by one
        if t == ExtensionType.supported_groups:
            # every group id is looked up in several lists: 4 (quick) / 7
            # payload bytes is what the path budget allows
            top = 4 if tier == "quick" else 7
        lens = list(range(0, top + 1))
        if t == ExtensionType.pre_shared_key:
            lens += [12, 13]        # one identity + one binder fit from 12
        for L in lens:
            for tls13 in (True, False):
                out.append(dict(ext=t, L=L, tls13=tls13))
    return out


@obligation("C08.2", _shapes_c08_2,
            functions=["tlslite.tlsconnection:TLSConnection."
                       "_serverGetClientHello",
                       "tlslite.tlsconnection:TLSConnection."
                       "_server_select_certificate",
                       "tlslite.tlsrecordlayer:TLSRecordLayer._getMsg",
                       "tlslite.tlsrecordlayer:TLSRecordLayer._sendError",
                       "tlslite.messages:ClientHello.parse",
                       "tlslite.extensions:*.parse"],
            assumes=HELLO_ASSUMES + [
                "ClientHello = a well-formed template (TLS 1.3 capable or "
                "TLS 1.2 only) in which ONE extension - every registered "
                "type in turn, plus the class-less ones and an unknown type - "
                "carries L arbitrary symbolic payload bytes; default server "
                "settings with RSA credentials, session cache and ticket "
                "keys absent"],
            patches=lambda s: (hello_proxies(), hello_stubs()),
            max_paths=30000, timeout=(400, 1500))
def c08_2(I, shape):
    """every way the server can react to a malformed extension is a return,
    or a fatal alert that is on the wire before TLSLocalAlert is raised;
    never an unrelated Python exception"""
    t, L = shape["ext"], shape["L"]
    payload = I.bytes(L, "ext")
    exts = std_extensions(shape["tls13"])
    # drop the template's own instance of this type, put the symbolic one in
    # (pre_shared_key must be last to get past the position check)
    exts = [e for e in exts if e.extType != t]
    sym = raw_ext(t, payload)
    if shape["tls13"] and t == ExtensionType.pre_shared_key:
        exts.append(_X.PskKeyExchangeModesExtension().create([1]))
    exts.append(sym)
    suites = [CipherSuite.TLS_AES_128_GCM_SHA256,
              CipherSuite.TLS_ECDHE_RSA_WITH_AES_128_GCM_SHA256,
              CipherSuite.TLS_RSA_WITH_AES_128_CBC_SHA]
    wire = record(ContentType.handshake,
                  ch_bytes((3, 3), suites, exts, session_id=b""))
    conn = server_conn(wire)
    settings = settings_family()["default"]
    try:
        out = run_server_hello(conn, settings, RSA_CHAIN, RSA_KEY,
                               alpn=[bytearray(b"h2")])
    except (PathAbort, Unsupported):
        raise
    except TLSAbruptCloseError:
        # the template ends after the first ClientHello: a HelloRetryRequest
        # was sent and the second hello never came
        I.cover("wire ended")
        return
    except Exception as e:
        I.fail("server hello processing raised %s" % type(e).__name__,
               detail=repr(e))
        return
    if out["kind"] == "alert":
        sent = out["sent"]
        I.check(len(sent) >= 1 and sent[-1][0] == ContentType.alert and
                bool(AND(sent[-1][2][0] == AlertLevel.fatal,
                         sent[-1][2][1] == out["alert"].description)),
                "fatal-alert-on-the-wire-before-raising")
        I.check(conn.closed, "closed-after-alert")
    else:
        I.cover(out["kind"])


# ---------------------------------------------------------------------------
# C08.3  HelloRetryRequest: the second ClientHello
# ---------------------------------------------------------------------------
from models.hello import EC_CHAIN, EC_KEY
import tlslite.messages as _Msg


def _shapes_c08_3(tier):
    return [dict(shares=k) for k in (0, 1, 2)]


@obligation("C08.3", _shapes_c08_3,
            functions=["tlslite.tlsconnection:TLSConnection."
                       "_serverGetClientHello"],
            assumes=HELLO_ASSUMES + [
                "first ClientHello offers TLS 1.3 with supported_groups "
                "{x25519, secp256r1} and a key share for a group the server "
                "does not accept first -> HelloRetryRequest; the second "
                "ClientHello carries 0, 1 or 2 key shares whose groups are "
                "symbolic, the echoed cookie, everything else as before"],
            patches=lambda s: (hello_proxies(), hello_stubs()),
            max_paths=8000, also=("C04", "C06"))
def c08_3(I, shape):
    """the second ClientHello is accepted only with exactly one key share
    for the requested group; anything else is a fatal alert, never a Python
    exception"""
    settings = HandshakeSettings()
    settings.keyShares = ["secp256r1"]
    settings.eccCurves = ["secp256r1"]      # x25519 share is not acceptable
    settings = settings.validate()
    suites = [CipherSuite.TLS_AES_128_GCM_SHA256]
    groups = [GroupName.x25519, GroupName.secp256r1]

    def hello(shares, cookie=None):
        exts = [_X.SupportedGroupsExtension().create(list(groups)),
                _X.SignatureAlgorithmsExtension().create([(8, 4), (4, 1)]),
                _X.SupportedVersionsExtension().create([(3, 4)]),
                _X.ClientKeyShareExtension().create(shares)]
        if cookie is not None:
            exts.append(cookie)
        return ch_bytes((3, 3), suites, exts, session_id=b"\x05" * 32)
    first = hello([_X.KeyShareEntry().create(GroupName.x25519,
                                             bytearray(32))])
    # cookie the server will send: 00 20 || 32 fixed "random" bytes
    from models.hello import fixed_random
    cookie = raw_ext(ExtensionType.cookie,
                     list(bytearray(b"\x00\x20") + fixed_random(32)))
    shares2 = []
    for j in range(shape["shares"]):
        g = I.uint(16, "group")
        shares2.append(_X.KeyShareEntry().create(
            g, bytearray(b"\x04" + b"\x01" * 64)))
    second = hello(shares2, cookie)
    wire = record(ContentType.handshake, first) + \
        record(ContentType.handshake, second)
    conn = server_conn(wire)
    try:
        out = run_server_hello(conn, settings, RSA_CHAIN, RSA_KEY)
    except (PathAbort, Unsupported):
        raise
    except TLSAbruptCloseError:
        I.fail("second ClientHello was not read")
        return
    except Exception as e:
        I.fail("HRR processing raised %s" % type(e).__name__, detail=repr(e))
        return
    sent = out["sent"]
    hrr = [r for r in sent if r[0] == ContentType.handshake]
    I.check(len(hrr) >= 1, "hello-retry-request-was-sent")
    if out["kind"] == "ret":
        I.check(shape["shares"] == 1 and
                bool(shares2[0].group == GroupName.secp256r1),
                "accepted-only-with-exactly-the-requested-share")
    else:
        I.check(out["kind"] == "alert", "otherwise-a-fatal-alert")
        I.check(len(sent) >= 2 and sent[-1][0] == ContentType.alert,
                "alert-on-the-wire")


# ---------------------------------------------------------------------------
# C08.5  X.509 / ASN.1: a window of a real certificate is arbitrary
# ---------------------------------------------------------------------------
import os as _os

import tlslite.x509 as x509mod
import tlslite.utils.asn1parser as asn1mod
import tlslite.utils.codec as codecmod
import tlslite.constants as constsmod
from tlslite.utils.pem import dePem
from symx.core import mk_bytearray, sym_from_bytes, sym_range
from models.conn import _bytes_passthrough

_TESTS = _os.path.join(_os.environ.get("VERIF_REPO", "/repo"), "tests")
CERTS = {"rsa": "serverX509Cert.pem", "ecdsa": "serverECCert.pem",
         "dsa": "serverDSACert.pem", "rsapss": "serverRSAPSSCert.pem",
         "ed25519": "serverEd25519Cert.pem"}


def _der(name):
    with open(_os.path.join(_TESTS, CERTS[name])) as f:
        return bytearray(dePem(f.read(), "CERTIFICATE"))


class BytesKeyDict(dict):
    """dict with bytes keys whose lookups accept symbolic byte strings: one
    path per key that can match, one for 'none matches'"""

    def _resolve(self, key):
        if not isinstance(key, SymBytes) or key.is_concrete():
            k = bytes(bytearray(int(x) for x in key)) \
                if isinstance(key, SymBytes) else key
            return k, dict.__contains__(self, k)
        for k in sorted(dict.keys(self)):
            if len(k) == len(key) and bool(seq_eq(list(key), list(k))):
                return k, True
        return None, False

    def __contains__(self, key):
        return self._resolve(key)[1]

    def __getitem__(self, key):
        k, ok = self._resolve(key)
        if not ok:
            raise KeyError(key)
        return dict.__getitem__(self, k)


class KeyLib(object):
    """boundary to the key libraries (python-ecdsa, dilithium, the RSA/DSA
    key classes): a call either returns an opaque key or fails the way the
    caller anticipates"""

    def __init__(self, I):
        self.I = I
        self.calls = []

    def make(self, name):
        def f(*a, **k):
            self.calls.append(name)
            return (name,) + tuple(a)
        return f

    def from_der(self, *a, **k):
        self.calls.append("from_der")
        if self.I.pick([False, True], "keylib_rejects"):
            raise ValueError("malformed key (library)")

        class _P(object):
            def x(self):
                return 1

            def y(self):
                return 2

        class _K(object):
            class pubkey(object):
                point = _P()

            class curve(object):
                name = "NIST256p"
        return _K()


KEYLIB = [None]


class _VK(object):
    @staticmethod
    def from_der(*a, **k):
        return KEYLIB[0].from_der(*a, **k)


def _x509_patches(shape):
    mk = lambda n: (lambda *a, **k: KEYLIB[0].make(n)(*a, **k))
    prox = [(x509mod, "bytearray", mk_bytearray),
            (x509mod, "bytes", _bytes_passthrough),
            (x509mod, "compatHMAC", lambda x: x),
            (asn1mod, "range", sym_range),
            (codecmod, "bytearray", mk_bytearray),
            (codecmod, "bytes_to_int", sym_from_bytes),
            (x509mod, "bytesToNumber", sym_from_bytes),
            (constsmod.AlgorithmOID, "oid",
             BytesKeyDict(constsmod.AlgorithmOID.oid))]
    stubs = [(x509mod, "VerifyingKey", _VK),
             (x509mod, "_createPublicRSAKey", mk("rsa")),
             (x509mod, "_create_public_ecdsa_key", mk("ecdsa")),
             (x509mod, "_create_public_dsa_key", mk("dsa")),
             (x509mod, "_create_public_eddsa_key", mk("eddsa")),
             (x509mod, "_create_public_mldsa_key", mk("mldsa"))]
    return (prox, stubs)


def _shapes_c08_5(tier):
    out = []
    W = 2
    for name in sorted(CERTS):
        try:
            n = len(_der(name))
        except (IOError, OSError):
            continue
        stride = 16 if tier == "quick" else W
        for o in range(0, n, stride):
            out.append(dict(cert=name, off=o, w=min(W, n - o)))
    return out


@obligation("C08.5", _shapes_c08_5,
            functions=["tlslite.x509:X509.parseBinary",
                       "tlslite.x509:get_algorithm",
                       "tlslite.x509:_rsa_pubkey_parsing",
                       "tlslite.x509:_dsa_pubkey_parsing",
                       "tlslite.x509:_ecdsa_pubkey_parsing",
                       "tlslite.x509:_eddsa_pubkey_parsing",
                       "tlslite.utils.asn1parser:ASN1Parser.__init__",
                       "tlslite.utils.asn1parser:ASN1Parser.getChild",
                       "tlslite.utils.asn1parser:ASN1Parser.getChildBytes",
                       "tlslite.utils.asn1parser:ASN1Parser.getChildCount",
                       "tlslite.utils.asn1parser:ASN1Parser._getASN1Length",
                       "tlslite.utils.asn1parser:ASN1Parser._parse_type"],
            assumes=["input: a real certificate from tests/ (RSA, RSA-PSS, "
                     "ECDSA, DSA, Ed25519) in which a window of 2 "
                     "consecutive bytes is symbolic (quick: every 16th "
                     "offset, thorough: every window)",
                     "key-object construction (Python_RSAKey, DSA key, "
                     "python-ecdsa VerifyingKey.from_der, EdDSA/ML-DSA "
                     "wrappers) is the boundary: constructors return an "
                     "opaque value, from_der either returns or raises - "
                     "the integers handed to the RSA/DSA constructors are "
                     "checked to be non-zero where the constructor asserts "
                     "it",
                     "allowed outcomes: a certificate object or the "
                     "SyntaxError family (what _getMsg turns into "
                     "decode_error); AlgorithmOID.oid lookups fork over the "
                     "registered OIDs"],
            patches=_x509_patches, max_paths=6000, timeout=(600, 1800))
def c08_5(I, shape):
    """X509.parseBinary on a certificate with arbitrary bytes in a window
    ends in a certificate or in SyntaxError - never in KeyError, IndexError,
    AssertionError, TypeError or another raw exception"""
    KEYLIB[0] = KeyLib(I)
    der = list(_der(shape["cert"]))
    o, w = shape["off"], shape["w"]
    sym = I.bytes(w, "window")
    buf = newbuf(der[:o] + list(sym) + der[o + w:])
    cert = x509mod.X509()
    try:
        cert.parseBinary(buf)
    except SyntaxError:
        I.cover("rejected")
        return
    except (PathAbort, Unsupported):
        raise
    except Exception as e:
        I.fail("X509.parseBinary raised %s" % type(e).__name__,
               detail=repr(e)[:200])
        return
    I.cover("parsed")
    pk = getattr(cert, "publicKey", None)
    if isinstance(pk, tuple) and pk[0] == "rsa":
        # Python_RSAKey asserts (n and e) or (not n and not e)
        I.check(AND(pk[1] != 0, pk[2] != 0),
                "rsa-key-constructed-only-from-non-zero-n-and-e")


# ---------------------------------------------------------------------------
# C08.4  certificate decompression is bounded by the declared length
# ---------------------------------------------------------------------------
import tlslite.messages as msgmod
from tlslite.constants import CertificateCompressionAlgorithm as CCA, \
    CertificateType
from tlslite.errors import TLSIllegalParameterException as _IllegalParam


class ZlibModel(object):
    """stands for the module zlib inside messages.py: records how much output
    each call may produce.  decompress(data, wbits, bufsize) is UNBOUNDED
    (bufsize is only the initial buffer); decompressobj().decompress(data,
    max_length) produces at most max_length bytes when max_length > 0."""
    error = ValueError

    def __init__(self, I):
        self.I = I
        self.calls = []

    def _out(self):
        n = self.I.pick([0, 1, 5], "produced")
        return bytes(bytearray(range(n)))

    def decompress(self, data, wbits=15, bufsize=16384):
        self.calls.append(("unbounded", None))
        return self._out()

    def compress(self, data, *a):
        return bytes(data)

    def decompressobj(self, wbits=15):
        outer = self

        class _D(object):
            unconsumed_tail = b""
            eof = True

            def decompress(self, data, max_length=0):
                outer.calls.append(("bounded", max_length))
                if outer.I.pick([False, True], "input_left_over"):
                    self.unconsumed_tail = b"x"
                    self.eof = False
                return outer._out()
        return _D()


ZLIB = [None]


class _ZlibProxy(object):
    def __getattr__(self, name):
        return getattr(ZLIB[0], name)


def _unbounded_impl(data, *limit):
    # brotli / zstd entry points that take a limit: what a limit of 0 means
    # is the library's business, so only "a limit is passed and it is the
    # declared length" is required of them ("bounded-lib")
    ZLIB[0].calls.append(("bounded-lib", limit[0]) if limit
                         else ("unbounded", None))
    return ZLIB[0]._out()


def _decomp_patches(shape):
    impls = dict(msgmod.compression_algo_impls)
    return ([], [(msgmod, "zlib", _ZlibProxy()),
                 (msgmod, "compression_algo_impls", impls)])


@obligation("C08.4", lambda tier: [dict(impl=i) for i in
                                   ("as-installed", "all-with-limit")],
            functions=["tlslite.messages:CompressedCertificate._decompress"],
            assumes=["zlib (C library) is replaced by a contract model: "
                     "decompress(data, wbits, bufsize) may produce any "
                     "amount of output, decompressobj().decompress(data, n) "
                     "at most n bytes for n > 0 and any amount for n = 0; "
                     "brotli / zstd entries as installed, or (second shape) "
                     "present and accepting a limit; the algorithm id is a "
                     "symbolic 16-bit value, the declared uncompressed "
                     "length a symbolic 24-bit value"],
            patches=_decomp_patches, max_paths=2000)
def c08_4(I, shape):
    """whatever algorithm and length the peer declares, no decompressor is
    asked for more output than the declared uncompressed length (so memory
    use is bounded by a field of the message, not by the compression
    ratio), and a result is returned only if it has exactly that length"""
    ZLIB[0] = ZlibModel(I)
    if shape["impl"] == "all-with-limit":
        msgmod.compression_algo_impls.update(
            brotli_decompress=_unbounded_impl, brotli_accepts_limit=True,
            zstd_decompress=_unbounded_impl, zstd_accepts_limit=True)
    algo = I.uint(16, "compression_algo")
    declared = I.uint(24, "uncompressed_length")
    cc = msgmod.CompressedCertificate(CertificateType.x509)
    cc.compression_algo = algo
    try:
        out = cc._decompress(bytearray(b"\x01\x02\x03"), declared)
        exc = None
    except (SyntaxError, _IllegalParam) as e:
        out, exc = None, e
    except (PathAbort, Unsupported):
        raise
    except Exception as e:
        I.fail("_decompress raised %s" % type(e).__name__, detail=repr(e))
        return
    for kind, limit in ZLIB[0].calls:
        I.check(kind != "unbounded", "no-unbounded-decompressor-call",
                detail=lambda: dict(calls=[k for k, _ in ZLIB[0].calls]))
        if kind == "bounded":
            I.check(AND(limit > 0, limit <= declared),
                    "output-limit-positive-and-at-most-the-declared-length")
        elif kind == "bounded-lib":
            I.check(limit == declared, "library-limit-is-the-declared-length")
    if exc is None:
        I.check(len(out) == declared, "result-has-the-declared-length")
        I.check(len(ZLIB[0].calls) == 1, "one-decompressor-call")


# ---------------------------------------------------------------------------
# C08.6  a key-holding peer sends arbitrary bytes under a valid MAC / tag
# ---------------------------------------------------------------------------
from models.fixtures import (rl_proxies, make_layer, install_state, drain,
                             MODES)
from tlslite.errors import (TLSBadRecordMAC, TLSDecryptionFailed,
                            TLSRecordOverflow, TLSUnexpectedMessage,
                            TLSIllegalParameterException as _TIP)
from tlslite.constants import ContentType as _CT

_RL_REJECT = (TLSBadRecordMAC, TLSDecryptionFailed, TLSRecordOverflow,
              TLSUnexpectedMessage, _TIP, TLSAbruptCloseError)


def _shapes_c08_6(tier):
    out = []
    for ver in ((3, 1), (3, 2), (3, 3)):
        for block, mac in ((16, 20), (8, 20), (16, 32)):
            for nct in (0, block, 2 * block, block + 3):
                data_bytes = nct - (block if ver >= (3, 2) and nct >= block
                                    else 0)
                if data_bytes >= 16 and data_bytes % block == 0:
                    # a whole block of 16 arbitrary data bytes multiplies
                    # the padding-check paths (2^k) beyond the budgets
                    continue
                if nct == 2 * block and tier == "quick":
                    continue
                out.append(dict(mode="cbc-etm", version=list(ver),
                                block=block, mac=mac, n=nct))
    for n in (0, 1, 2, 17):
        out.append(dict(mode="tls13", version=[3, 4], block=None, mac=0,
                        n=n))
        out.append(dict(mode="aead-explicit", version=[3, 3], block=None,
                        mac=0, n=n))
        out.append(dict(mode="aead-xor", version=[3, 3], block=None, mac=0,
                        n=n))
    return out


@obligation("C08.6", _shapes_c08_6,
            functions=["tlslite.recordlayer:RecordLayer.recvRecord",
                       "tlslite.recordlayer:RecordLayer._macThenDecrypt",
                       "tlslite.recordlayer:RecordLayer._decryptAndUnseal",
                       "tlslite.recordlayer:RecordLayer._decryptThenMAC",
                       "tlslite.recordlayer:RecordLayer._tls13_de_pad"],
            assumes=["the sender holds the keys: encrypt-then-MAC records "
                     "carry a VALID MAC over an arbitrary symbolic "
                     "ciphertext of the enumerated length (0, 1, 2, 3 "
                     "blocks, a non-multiple); AEAD records carry a valid "
                     "tag over an arbitrary symbolic plaintext (TLS 1.3: "
                     "inner plaintext, possibly without a content type); "
                     "cipher/MAC models as in C02.1"],
            patches=lambda s: (rl_proxies(), []), max_paths=60000,
            timeout=(600, 1800))
def c08_6(I, shape):
    """a record that authenticates but is otherwise arbitrary ends in data or
    in one of the record layer's TLS exceptions - never IndexError or
    another raw exception"""
    mode = shape["mode"]
    version = tuple(shape["version"])
    block = shape["block"] or 16
    rs, rcv = make_layer(version, mode)
    ss, snd = make_layer(version, mode)
    nonce = None
    if MODES[mode][0] == "aead":
        nonce = I.bytes(4 if mode == "aead-explicit" else 12, "fixednonce")
    install_state(rcv, rcv._readState, mode, "k", shape["mac"], block,
                  fixed_nonce=nonce, stateless=True)
    install_state(snd, snd._writeState, mode, "k", shape["mac"], block,
                  fixed_nonce=nonce, stateless=True)
    seq = I.uint(16, "seq")
    rcv._readState.seqnum = seq
    snd._writeState.seqnum = seq
    ctype = I.byte("ctype")
    assume(OR([ctype == t for t in _CT.all]))
    n = shape["n"]
    if mode == "cbc-etm":
        ct = I.bytes(n, "ciphertext")
        mac = rcv._readState.macContext.copy()
        seqb = [0] * 6 + [(seq >> 8) & 0xff, seq & 0xff]
        mac.update(seqb)
        mac.update([ctype])
        mac.update([version[0], version[1]])
        mac.update([n >> 8, n & 0xff])
        mac.update(list(ct))
        body = list(ct) + list(mac.digest())
        rcv.encryptThenMAC = True
        wire = [ctype, version[0], version[1], len(body) >> 8,
                len(body) & 0xff] + body
    else:
        pt = I.bytes(n, "plaintext")
        if mode == "tls13":
            assume(ctype != _CT.change_cipher_spec)
            before = len(ss.out)
            # seal the arbitrary inner plaintext directly
            snd._recordSocket.version = (3, 3)
            buf = snd._encryptThenSeal(newbuf(list(pt)),
                                       _CT.application_data)
            wire = [_CT.application_data, 3, 3, len(buf) >> 8,
                    len(buf) & 0xff] + list(buf)
        else:
            buf = snd._encryptThenSeal(newbuf(list(pt)), ctype)
            wire = [ctype, version[0], version[1], len(buf) >> 8,
                    len(buf) & 0xff] + list(buf)
    rs.inp = newbuf(wire)
    try:
        res = drain(rcv.recvRecord())
    except _RL_REJECT:
        I.cover("rejected")
        return
    except (PathAbort, Unsupported):
        raise
    except Exception as e:
        I.fail("recvRecord raised %s on an authenticated record"
               % type(e).__name__, detail=repr(e)[:200])
        return
    I.cover("delivered")
    hdr, parser = res
    I.check(AND(parser.index >= 0, parser.index <= len(parser.bytes)),
            "index-within-buffer")
