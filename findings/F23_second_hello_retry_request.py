"""F23: a server that answers the retried ClientHello with a second
HelloRetryRequest makes the TLS 1.3 client raise AttributeError
("'HRRKeyShareExtension' object has no attribute 'server_share'") instead of
aborting with unexpected_message (RFC 8446 4.1.4) - C08 / C06.

A fake server on a socketpair sends two HelloRetryRequests.
usage: VERIF_REPO=<tree> /venv/bin/python findings/F23_second_hello_retry_request.py
exit 1 = defect present, 0 = absent
"""
import os
import socket
import sys
import threading

REPO = os.environ.get("VERIF_REPO", "/repo")
sys.path.insert(0, REPO)
from tlslite.api import TLSConnection, HandshakeSettings      # noqa: E402
from tlslite.errors import BaseTLSException                   # noqa: E402
from tlslite.messages import ServerHello, ClientHello         # noqa: E402
from tlslite.extensions import (SrvSupportedVersionsExtension,
                                HRRKeyShareExtension)          # noqa: E402
from tlslite.constants import (CipherSuite, GroupName, TLS_1_3_HRR,
                               ExtensionType)                  # noqa: E402
from tlslite.utils.codec import Parser                        # noqa: E402


def read_record(sock):
    hdr = b""
    while len(hdr) < 5:
        d = sock.recv(5 - len(hdr))
        if not d:
            return None, None
        hdr += d
    n = (hdr[3] << 8) | hdr[4]
    body = b""
    while len(body) < n:
        body += sock.recv(n - len(body))
    return hdr[0], body


a, b = socket.socketpair()


def server():
    try:
        _, body = read_record(b)
        ch = ClientHello().parse(Parser(bytearray(body[1:])))
        for group in (GroupName.secp384r1, GroupName.secp521r1):
            hrr = ServerHello().create(
                (3, 3), bytearray(TLS_1_3_HRR), ch.session_id,
                CipherSuite.TLS_AES_128_GCM_SHA256,
                extensions=[SrvSupportedVersionsExtension().create((3, 4)),
                            HRRKeyShareExtension().create(group)])
            data = hrr.write()
            b.sendall(bytes(bytearray([22, 3, 3, len(data) >> 8,
                                       len(data) & 0xff]) + data))
            # the retried ClientHello (possibly preceded by a CCS)
            while True:
                t, body = read_record(b)
                if t in (22, None):
                    break
    finally:
        b.settimeout(1)
        try:
            while b.recv(4096):
                pass
        except (socket.timeout, OSError):
            pass
        b.close()


th = threading.Thread(target=server)
th.start()
c = TLSConnection(a)
st = HandshakeSettings()
st.minVersion = (3, 4)
bad = False
try:
    c.handshakeClientCert(settings=st)
    print("handshake completed?!")
    bad = True
except (BaseTLSException, socket.error) as e:
    print("ok:", type(e).__name__, e)
except Exception as e:
    print("RAW EXCEPTION %s: %s" % (type(e).__name__, e))
    bad = True
th.join()
print("DEFECT PRESENT" if bad else "no defect")
sys.exit(1 if bad else 0)
