"""F24: CompressedCertificate (RFC 8879) with zlib is decompressed without a
limit: zlib.decompress(data, 15, expected_length) passes the declared
uncompressed_length as the *initial buffer size* (bufsize), not as a bound, so
a peer's 64 KiB message that declares 100 bytes is inflated to 64 MiB before
the length comparison rejects it (C08: memory out of proportion to the bytes
received; RFC 8879 section 4: "MUST NOT ... more than uncompressed_length").

usage: VERIF_REPO=<tree> /venv/bin/python findings/F24_compressed_certificate_bomb.py
exit 1 = defect present, 0 = absent
"""
import os
import sys
import tracemalloc
import zlib

REPO = os.environ.get("VERIF_REPO", "/repo")
sys.path.insert(0, REPO)
from tlslite.messages import CompressedCertificate            # noqa: E402
from tlslite.constants import (CertificateType,
                               CertificateCompressionAlgorithm)  # noqa: E402
from tlslite.utils.codec import Parser                        # noqa: E402

bomb = zlib.compress(b"\x00" * (64 << 20), 9)
declared = 100
body = bytearray()
body += bytearray([0, CertificateCompressionAlgorithm.zlib])
body += bytearray([declared >> 16, (declared >> 8) & 0xff, declared & 0xff])
body += bytearray([len(bomb) >> 16, (len(bomb) >> 8) & 0xff,
                   len(bomb) & 0xff])
body += bomb
msg = bytearray([len(body) >> 16, (len(body) >> 8) & 0xff,
                 len(body) & 0xff]) + body
tracemalloc.start()
outcome = None
try:
    CompressedCertificate(CertificateType.x509).parse(Parser(msg))
    outcome = "parsed?!"
except Exception as e:
    outcome = type(e).__name__
peak = tracemalloc.get_traced_memory()[1]
tracemalloc.stop()
print("message bytes: %d, declared uncompressed length: %d" % (len(msg),
                                                                declared))
print("outcome: %s, peak allocation while parsing: %.1f MiB"
      % (outcome, peak / 2.0 ** 20))
bad = peak > 64 * len(msg) + (1 << 20)
print("DEFECT PRESENT" if bad else "no defect")
sys.exit(1 if bad else 0)
