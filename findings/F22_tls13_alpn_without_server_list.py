"""F22: a TLS 1.3 server that was not given an ALPN list raises TypeError
when the client offers ALPN (C08: raw exception out of handshakeServer on
ordinary peer input; the TLS <= 1.2 path guards with `if alpnExt and alpn`).

usage: VERIF_REPO=<tree> /venv/bin/python findings/F22_tls13_alpn_without_server_list.py
exit 1 = defect present, 0 = absent
"""
import os
import socket
import sys
import threading

REPO = os.environ.get("VERIF_REPO", "/repo")
sys.path.insert(0, REPO)
from tlslite.api import (TLSConnection, HandshakeSettings, X509,  # noqa: E402
                         X509CertChain, parsePEMKey)
from tlslite.errors import BaseTLSException                   # noqa: E402

T = os.path.join(REPO, "tests")
c = X509()
c.parse(open(os.path.join(T, "serverX509Cert.pem")).read())
chain = X509CertChain([c])
key = parsePEMKey(open(os.path.join(T, "serverX509Key.pem")).read(),
                  private=True)
a, b = socket.socketpair()
res = {}


def server():
    s = TLSConnection(b)
    try:
        s.handshakeServer(certChain=chain, privateKey=key)   # no alpn=
        res["server"] = "completed, appProto=%r" % (s.session.appProto,)
    except (BaseTLSException, socket.error) as e:
        res["server"] = "TLS error " + type(e).__name__
    except Exception as e:
        res["server"] = "RAW " + type(e).__name__ + ": " + str(e)
    finally:
        b.close()


th = threading.Thread(target=server)
th.start()
cl = TLSConnection(a)
try:
    cl.handshakeClientCert(alpn=[bytearray(b"h2")])
    res["client"] = "completed"
except Exception as e:
    res["client"] = type(e).__name__
th.join()
print("server:", res["server"])
print("client:", res["client"])
bad = res["server"].startswith("RAW")
print("DEFECT PRESENT" if bad else "no defect")
sys.exit(1 if bad else 0)
