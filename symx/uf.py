"""Uninterpreted functions over byte strings, usable in both execution modes.

Symbolic mode: ``UF(name, nin, nout)(buf)`` is a z3 uninterpreted function from
8*nin bits to 8*nout bits applied to the concatenation of the (symbolic) bytes.
Concrete mode (native replay): the same application is evaluated in the solver
model that produced the counterexample ("table read from the model"); without a
model a fixed deterministic interpretation (SHA-256 based) is used, so the
harness bodies can also be run natively on the repository's test vectors.
"""
import hashlib

import z3

from .core import Ctx, SymInt, SymBytes, sx, _mk_byte, byte_term, is_concrete_mode, \
    assume, Unsupported

_F = {}


def _fn(name, nin, nout):
    key = (name, nin, nout)
    if key not in _F:
        dom = z3.BitVecSort(8 * nin) if nin else z3.BitVecSort(1)
        _F[key] = z3.Function("%s_%d_%d" % (name, nin, nout), dom,
                              z3.BitVecSort(8 * nout))
    return _F[key]


b8 = byte_term


def cat(buf):
    buf = list(buf)
    k = len(buf)
    if k == 0:
        return z3.BitVecVal(0, 1)
    if k == 1:
        return b8(buf[0])
    return z3.Concat(*[b8(x) for x in buf])


def split(d, n):
    return SymBytes([_mk_byte(z3.Extract(8 * (n - j) - 1, 8 * (n - j - 1), d),
                              simp=False)
                     for j in range(n)])


def _default_interp(name, data, nout):
    out = b""
    ctr = 0
    while len(out) < nout:
        out += hashlib.sha256(name.encode() + b"|" + bytes([ctr & 0xff]) + b"|"
                              + bytes(data)).digest()
        ctr += 1
    return bytearray(out[:nout])


def apply_uf(name, buf, nout):
    """apply uninterpreted function <name> to byte sequence buf -> nout bytes"""
    buf = list(buf)
    nin = len(buf)
    if nout == 0:
        return bytearray() if is_concrete_mode() else SymBytes()
    if is_concrete_mode():
        c = Ctx.cur
        data = [int(x) for x in buf]
        key = "%s/%d/%s" % (name, nout, bytes(data).hex())
        tab = getattr(c, "uf_table", None) if c is not None else None
        if tab is not None and key in tab:
            return bytearray(bytes.fromhex(tab[key]))
        if c is not None and c.model is not None:
            f = _fn(name, nin, nout)
            arg = z3.BitVecVal(int.from_bytes(bytes(data), 'big'), 8 * nin) \
                if nin else z3.BitVecVal(0, 1)
            v = c.model.eval(f(arg), model_completion=True).as_long()
            c.uf_log[key] = v.to_bytes(nout, 'big').hex()
            return bytearray(v.to_bytes(nout, 'big'))
        return _default_interp(name, data, nout)
    f = _fn(name, nin, nout)
    arg = cat(buf)
    out = f(arg)
    c = Ctx.cur
    if c is not None:
        apps = getattr(c, "uf_apps", None)
        if apps is None:
            apps = c.uf_apps = []
        apps.append((name, nin, nout, arg, out))
    return split(out, nout)


def assume_collision_free(prefixes, same_shape_only=(), trunc=None):
    """collision resistance as a path assumption: over all applications made
    so far on this path of functions whose name starts with one of
    `prefixes` (one family per prefix: all input lengths together), equal
    outputs imply equal inputs (and equal input length; for prefixes listed
    in same_shape_only just within one function).  Incremental: pairs already
    constrained on this path are not added again.  Returns the number of
    constraints added.  trunc=k: already the first k output bytes do not
    collide (truncated MACs / HKDF outputs)."""
    c = Ctx.cur
    if is_concrete_mode() or c is None:
        return 0

    def head(out, nout):
        if trunc is None or nout <= trunc:
            return out
        return z3.Extract(8 * nout - 1, 8 * (nout - trunc), out)
    apps = getattr(c, "uf_apps", [])
    done = getattr(c, "uf_cf_done", None)
    if done is None:
        done = c.uf_cf_done = set()
    n = 0
    for pre in prefixes:
        fam = {}
        for name, nin, nout, arg, out in apps:
            if name.startswith(pre):
                fam[(name, nin, arg.get_id())] = (name, nin, nout, arg, out)
        keys = list(fam)
        for i in range(len(keys)):
            for j in range(i + 1, len(keys)):
                pk = (keys[i], keys[j])
                if pk in done:
                    continue
                done.add(pk)
                a, b = fam[keys[i]], fam[keys[j]]
                if a[2] != b[2]:
                    continue
                if a[0] == b[0] and a[1] == b[1]:
                    assume(z3.Implies(head(a[4], a[2]) == head(b[4], b[2]),
                                      a[3] == b[3]))
                    n += 1
                elif pre not in same_shape_only:
                    assume(head(a[4], a[2]) != head(b[4], b[2]))
                    n += 1
    return n
