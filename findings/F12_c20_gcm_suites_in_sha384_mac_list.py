"""F12 (C20/C03): TLS_DHE_DSS_WITH_AES_256_GCM_SHA384 (0x00A3, negotiable via
dhe_dsa) and TLS_DH_DSS_WITH_AES_256_GCM_SHA384 were listed in
CipherSuite.sha384Suites, the SHA-384 *HMAC* family: the session accessor
reported MAC 'sha384' for an AEAD suite and the settings filter admitted the
suite with macNames=['sha384'] (AEAD disabled).  Exit 1 if present."""
import sys
sys.path.insert(0, "/repo")
from tlslite.constants import CipherSuite
from tlslite.session import Session
from tlslite.handshakesettings import HandshakeSettings

bad = []
s = Session()
s.cipherSuite = CipherSuite.TLS_DHE_DSS_WITH_AES_256_GCM_SHA384
ref = Session()
ref.cipherSuite = CipherSuite.TLS_DHE_RSA_WITH_AES_256_GCM_SHA384
if s.getMacName() != ref.getMacName():
    bad.append("getMacName() = %r for DHE_DSS GCM but %r for DHE_RSA GCM"
               % (s.getMacName(), ref.getMacName()))
hs = HandshakeSettings()
hs.macNames = ["sha384"]            # AEAD not allowed
hs.cipherNames = ["aes256gcm", "aes256"]
hs.keyExchangeNames = ["dhe_dsa", "ecdhe_rsa"]
hs = hs.validate()
got = CipherSuite.getDheDsaSuites(hs, (3, 3))
if CipherSuite.TLS_DHE_DSS_WITH_AES_256_GCM_SHA384 in got:
    bad.append("AEAD suite offered although 'aead' is not in macNames")
print(bad or "ok")
sys.exit(1 if bad else 0)
