"""F15 (C13): TLS 1.2 client holding a session ticket.  When the server
declines the ticket (e.g. after rotating its ticket keys) and starts a full
handshake, the client still assumed resumption (any session with
tls_1_0_tickets was treated as resumed) and aborted with unexpected_message
instead of completing the full handshake.  Live handshakes over a socket
pair.  Exit 1 if present."""
import socket
import sys
import threading
sys.path.insert(0, "/repo")
from tlslite.api import (TLSConnection, HandshakeSettings, X509,
                         X509CertChain, parsePEMKey)

with open("/repo/tests/serverX509Cert.pem") as f:
    c = X509()
    c.parse(f.read())
chain = X509CertChain([c])
with open("/repo/tests/serverX509Key.pem") as f:
    key = parsePEMKey(f.read(), private=True)


def run(server_keys, session):
    a, b = socket.socketpair()
    res = {}

    def srv():
        st = HandshakeSettings()
        st.maxVersion = (3, 3)
        st.ticketKeys = server_keys
        conn = TLSConnection(b)
        try:
            conn.handshakeServer(certChain=chain, privateKey=key, settings=st)
            conn.write(b"ok")
            conn.close()
            res["server"] = "done"
        except Exception as e:
            res["server"] = repr(e)
    t = threading.Thread(target=srv)
    t.start()
    st = HandshakeSettings()
    st.maxVersion = (3, 3)
    conn = TLSConnection(a)
    try:
        conn.handshakeClientCert(settings=st, session=session)
        data = conn.read(min=2, max=2)
        res["client"] = "done resumed=%s" % conn.resumed
        sess = conn.session
        conn.close()
    except Exception as e:
        res["client"] = repr(e)
        sess = None
    t.join(10)
    a.close()
    b.close()
    return res, sess


k1, k2 = [bytearray(b"1" * 32)], [bytearray(b"2" * 32)]
r1, s1 = run(k1, None)
print("first handshake:", r1)
r2, s2 = run(k1, s1)
print("same key, ticket offered:", r2)
r3, s3 = run(k2, s1)
print("rotated key, ticket offered:", r3)
ok = r3.get("client", "").startswith("done") and \
    r2.get("client", "") == "done resumed=True"
sys.exit(0 if ok else 1)
