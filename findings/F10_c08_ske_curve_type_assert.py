"""F10 (C08): a ServerKeyExchange for an ECDHE suite whose curve_type is not
named_curve(3) made ServerKeyExchange.parse() raise AssertionError, which
_getMsg does not map to an alert (and which vanishes under python -O).
Exit 1 if present."""
import sys
sys.path.insert(0, "/repo")
from tlslite.messages import ServerKeyExchange
from tlslite.constants import CipherSuite
from tlslite.utils.codec import Parser
from tlslite.errors import TLSIllegalParameterException

body = bytearray(b"\x00\x00\x04" + b"\x01\x00\x17\x00")   # explicit_prime
try:
    ServerKeyExchange(CipherSuite.TLS_ECDHE_RSA_WITH_AES_128_CBC_SHA,
                      (3, 3)).parse(Parser(body))
    print("accepted")
    sys.exit(1)
except (SyntaxError, TLSIllegalParameterException) as e:
    print("clean decode error:", type(e).__name__)
    sys.exit(0)
except Exception as e:
    print("unrelated exception:", type(e).__name__)
    sys.exit(1)
