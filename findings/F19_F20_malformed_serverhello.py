"""F19 / F20: a malformed TLS 1.3 ServerHello makes the client raise a raw
Python exception (C08).

F19: key_share extension with an empty body  -> AttributeError
F20: pre_shared_key selecting identity #5 when one was offered -> IndexError
     (empty body -> TypeError)

A fake server on a socketpair answers the real client's ClientHello with a
hand-built ServerHello.  exit 1 = defect present (an exception that is not one
of the library's documented types escaped), 0 = absent.
usage: VERIF_REPO=<tree> /venv/bin/python findings/F19_F20_malformed_serverhello.py
"""
import os
import socket
import sys
import threading

REPO = os.environ.get("VERIF_REPO", "/repo")
sys.path.insert(0, REPO)
from tlslite.api import TLSConnection, HandshakeSettings     # noqa: E402
from tlslite.errors import BaseTLSException                  # noqa: E402
from tlslite.messages import ServerHello, ClientHello        # noqa: E402
from tlslite.extensions import (TLSExtension, SrvSupportedVersionsExtension,
                                ServerKeyShareExtension, KeyShareEntry,
                                SrvPreSharedKeyExtension)     # noqa: E402
from tlslite.constants import (ExtensionType, CipherSuite,
                               GroupName)                     # noqa: E402
from tlslite.utils.codec import Parser                       # noqa: E402


def read_record(sock):
    hdr = b""
    while len(hdr) < 5:
        hdr += sock.recv(5 - len(hdr))
    n = (hdr[3] << 8) | hdr[4]
    body = b""
    while len(body) < n:
        body += sock.recv(n - len(body))
    return hdr[0], body


def attempt(name, make_exts):
    a, b = socket.socketpair()

    def server():
        try:
            _, body = read_record(b)
            ch = ClientHello().parse(Parser(bytearray(body[1:])))
            sh = ServerHello().create(
                (3, 3), bytearray(b"\x07" * 32), ch.session_id,
                CipherSuite.TLS_AES_128_GCM_SHA256,
                extensions=make_exts(ch))
            data = sh.write()
            b.sendall(bytes(bytearray([22, 3, 3, len(data) >> 8,
                                       len(data) & 0xff]) + data))
            b.settimeout(2)
            try:
                while b.recv(4096):
                    pass
            except (socket.timeout, OSError):
                pass
        finally:
            b.close()
    th = threading.Thread(target=server)
    th.start()
    c = TLSConnection(a)
    st = HandshakeSettings()
    st.minVersion = (3, 4)
    st.pskConfigs = [(bytearray(b"ident"), bytearray(b"\x01" * 32))]
    bad = False
    try:
        c.handshakeClientCert(settings=st)
        print("%-32s handshake completed?!" % name)
        bad = True
    except (BaseTLSException, socket.error) as e:
        print("%-32s ok: %s" % (name, type(e).__name__))
    except Exception as e:
        print("%-32s RAW EXCEPTION %s: %s" % (name, type(e).__name__, e))
        bad = True
    th.join()
    a.close()
    return bad


def share(ch):
    ks = ch.getExtension(ExtensionType.key_share).client_shares[0]
    return ServerKeyShareExtension().create(
        KeyShareEntry().create(ks.group, ks.key_exchange))


def raw(t, body=b""):
    return TLSExtension(extType=t).create(bytearray(body))


CASES = [
    ("F19 empty key_share",
     lambda ch: [SrvSupportedVersionsExtension().create((3, 4)),
                 raw(ExtensionType.key_share)]),
    ("F20 selected_identity out of range",
     lambda ch: [SrvSupportedVersionsExtension().create((3, 4)), share(ch),
                 SrvPreSharedKeyExtension().create(5)]),
    ("F20 empty pre_shared_key",
     lambda ch: [SrvSupportedVersionsExtension().create((3, 4)), share(ch),
                 raw(ExtensionType.pre_shared_key)]),
]

if __name__ == "__main__":
    bad = [attempt(n, f) for n, f in CASES]
    print("DEFECT PRESENT" if any(bad) else "no defect")
    sys.exit(1 if any(bad) else 0)
