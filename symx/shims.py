"""Drop-in replacements for C-level helpers that proxies cannot enter."""
import struct as _struct

from .core import (SymInt, SymBool, SymBytes, Unsupported, OR, is_concrete_mode,
                   mk_bytearray, sym_from_bytes, sym_max, sym_min)

_SIZES = {"B": 1, "H": 2, "I": 4, "L": 4, "Q": 8}


def sym_pack(fmt, *vals):
    """struct.pack for big/little-endian unsigned formats with SymInt values
    (same range errors as the C implementation: struct.error)"""
    if not any(isinstance(v, (SymInt, SymBool)) for v in vals):
        return _struct.pack(fmt, *vals)
    order = 'big'
    f = fmt
    if f and f[0] in "<>!=@":
        if f[0] == "<":
            order = 'little'
        f = f[1:]
    codes = []
    num = ""
    for ch in f:
        if ch.isdigit():
            num += ch
            continue
        if ch not in _SIZES:
            raise Unsupported("struct format %r" % fmt)
        codes += [ch] * (int(num) if num else 1)
        num = ""
    if len(codes) != len(vals):
        raise _struct.error("pack expected %d items for packing (got %d)"
                            % (len(codes), len(vals)))
    out = SymBytes()
    for ch, v in zip(codes, vals):
        n = _SIZES[ch]
        if isinstance(v, SymBool):
            v = SymInt.lift(v)
        if isinstance(v, int):
            out += SymBytes(_struct.pack((">" if order == 'big' else "<")
                                         + ch, v))
            continue
        if bool(OR(v < 0, v >= (1 << (8 * n)))):
            raise _struct.error("argument out of range")
        out += v.to_bytes(n, order)
    return out


def sym_unpack(fmt, data):
    if isinstance(data, SymBytes) and not data.is_concrete():
        order = 'big'
        f = fmt
        if f and f[0] in "<>!=@":
            if f[0] == "<":
                order = 'little'
            f = f[1:]
        codes = []
        num = ""
        for ch in f:
            if ch.isdigit():
                num += ch
                continue
            if ch not in _SIZES:
                raise Unsupported("struct format %r" % fmt)
            codes += [ch] * (int(num) if num else 1)
            num = ""
        total = sum(_SIZES[c] for c in codes)
        if total != len(data):
            raise _struct.error("unpack requires a buffer of %d bytes" % total)
        out = []
        pos = 0
        for ch in codes:
            n = _SIZES[ch]
            out.append(sym_from_bytes(data[pos:pos + n], order))
            pos += n
        return tuple(out)
    return _struct.unpack(fmt, bytes(data))


class SymDict(dict):
    """dict whose lookups accept a SymInt key: one path per matching key plus
    one path for 'no key matches' (instead of hashing = concretising)"""

    def _resolve(self, key):
        if isinstance(key, SymBool):
            key = SymInt.lift(key)
        if not isinstance(key, SymInt):
            return key, dict.__contains__(self, key)
        c = key.conc()
        if c is not None:
            return c, dict.__contains__(self, c)
        for k in sorted(k for k in dict.keys(self) if isinstance(k, int)):
            if key.lo <= k <= key.hi and bool(key == k):
                return k, True
        return None, False

    def __contains__(self, key):
        return self._resolve(key)[1]

    def __getitem__(self, key):
        k, ok = self._resolve(key)
        if not ok:
            raise KeyError(key)
        return dict.__getitem__(self, k)

    def get(self, key, default=None):
        k, ok = self._resolve(key)
        if not ok:
            return default
        return dict.__getitem__(self, k)


class SymList(list):
    """list whose ``in`` works with SymInt without surprises (list.__contains__
    already calls == on each element and bool() on the result, which forks;
    this class only documents the intent and adds index())"""

    def index(self, x, *a):
        for i, y in enumerate(self):
            if bool(y == x):
                return i
        raise ValueError("not in list")


def sym_int_to_bytes(val, length=None, byteorder="big"):
    """tlslite.utils.compat.int_to_bytes without the ``int(val)`` coercion
    (which exists for gmpy and would concretise a SymInt)"""
    if not isinstance(val, (SymInt, SymBool)) and \
            not isinstance(length, (SymInt, SymBool)):
        if length is None:
            length = (val.bit_length() + 7) // 8 if val else 1
        return bytearray(val.to_bytes(length=length, byteorder=byteorder))
    if isinstance(val, SymBool):
        val = SymInt.lift(val)
    if length is None:
        if bool(val != 0):
            length = (val.bit_length() + 7) // 8
        else:
            length = 1
    if isinstance(val, int):
        val = SymInt.lift(val)
    return val.to_bytes(int(length), byteorder)


class SymSet(object):
    """set / frozenset whose membership is decided by == (forking on SymInt
    elements) instead of hashing (which would concretise them)"""

    def __init__(self, items=()):
        self.items = []
        for x in items:
            self.add(x)

    def _has(self, x):
        for y in self.items:
            r = (y == x)
            if r is True or (r is not False and r is not NotImplemented
                             and bool(r)):
                return True
        return False

    def add(self, x):
        if not self._has(x):
            self.items.append(x)

    def __contains__(self, x):
        return self._has(x)

    def __len__(self):
        return len(self.items)

    def __iter__(self):
        return iter(list(self.items))

    def __bool__(self):
        return bool(self.items)

    def intersection(self, other):
        o = other if isinstance(other, SymSet) else SymSet(other)
        return SymSet(x for x in self.items if x in o)

    def union(self, *others):
        r = SymSet(self.items)
        for o in others:
            for x in o:
                r.add(x)
        return r

    def __sub__(self, other):
        o = other if isinstance(other, SymSet) else SymSet(other)
        return SymSet(x for x in self.items if x not in o)

    def __rsub__(self, other):
        return SymSet(other) - self

    def difference(self, *others):
        r = self
        for o in others:
            r = r - o
        return r

    def issubset(self, other):
        o = other if isinstance(other, SymSet) else SymSet(other)
        return all(x in o for x in self.items)

    def issuperset(self, other):
        return all(x in self for x in other)

    def copy(self):
        return SymSet(self.items)

    def __and__(self, other):
        return self.intersection(other)

    def __or__(self, other):
        return self.union(other)

    def __eq__(self, other):
        if not isinstance(other, (SymSet, set, frozenset)):
            return False
        o = other if isinstance(other, SymSet) else SymSet(other)
        return len(self) == len(o) and all(x in o for x in self.items)

    def __ne__(self, other):
        return not self.__eq__(other)

    __hash__ = None

    def update(self, other):
        for x in other:
            self.add(x)

    def remove(self, x):
        for i, y in enumerate(self.items):
            if bool(y == x):
                del self.items[i]
                return
        raise KeyError(x)

    def discard(self, x):
        try:
            self.remove(x)
        except KeyError:
            pass


def sym_powmod(base, power, modulus):
    """cryptomath.powMod for proxies: 3-argument pow() never consults
    __rpow__, so a symbolic exponent is concretised here (one path per
    value) and a symbolic base uses square-and-multiply on terms"""
    if isinstance(power, (SymInt, SymBool)):
        power = int(power)
    if isinstance(modulus, (SymInt, SymBool)):
        modulus = int(modulus)
    if isinstance(base, SymBool):
        base = SymInt.lift(base)
    if isinstance(base, SymInt):
        if power < 0:
            raise Unsupported("negative exponent with symbolic base")
        return base.__pow__(power, modulus)
    if power < 0:
        return pow(pow(base, -1, modulus), -power, modulus)
    return pow(base, power, modulus)
