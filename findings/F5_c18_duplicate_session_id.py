"""F5 (C18): storing a session under an ID that is already in the cache left
two ring entries for one dict entry; evicting/purging the older one deleted
the newer session (lookup -> KeyError) and evicting the second one raised
KeyError out of __setitem__.  Exit 1 if present."""
import sys
sys.path.insert(0, "/repo")
from tlslite.sessioncache import SessionCache


class S(object):
    def __init__(self, n):
        self.n = n

    def valid(self):
        return True


bad = []
c = SessionCache(maxEntries=2)
c[b"a"] = S(1)
c[b"a"] = S(2)
try:
    if c[b"a"].n != 2:
        bad.append("wrong session returned")
except KeyError:
    bad.append("session last stored under 'a' was lost")
c = SessionCache(maxEntries=3)
try:
    c[b"a"] = S(1)
    c[b"a"] = S(2)
    c[b"b"] = S(3)
    c[b"c"] = S(4)
    c[b"d"] = S(5)
except KeyError:
    bad.append("__setitem__ raised KeyError (internal error)")
print(bad or "ok")
sys.exit(1 if bad else 0)
