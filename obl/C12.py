"""C12 - the CBC MAC-and-padding check accepts exactly the well-formed bodies."""
import z3

from lib.framework import obligation
from symx.core import (SymInt, SymBool, SymBytes, mk_bytearray, sym_max,
                       sym_min, AND, OR, NOT, IFF, seq_eq, is_concrete_mode,
                       ite, _b)
from models.crypto import StubMac, H

import tlslite.utils.constanttime as ct


# ---------------------------------------------------------------------------
# C12.1  ct_* helpers as bit-vector lemmas for all 32-bit arguments
# ---------------------------------------------------------------------------

def _shapes_c12_1(tier):
    return [dict(fn=f) for f in ("ct_lt_u32", "ct_gt_u32", "ct_le_u32",
                                 "ct_neq_u32", "ct_eq_u32",
                                 "ct_isnonzero_u32", "ct_lsb_prop_u8",
                                 "ct_lsb_prop_u16")]


@obligation("C12.1", _shapes_c12_1,
            functions=["tlslite.utils.constanttime:" + f for f in (
                "ct_lt_u32", "ct_gt_u32", "ct_le_u32", "ct_neq_u32",
                "ct_eq_u32", "ct_isnonzero_u32", "ct_lsb_prop_u8",
                "ct_lsb_prop_u16")],
            assumes=["arguments are unsigned 32-bit values (the documented "
                     "precondition); ct_lsb_prop_*: any 33-bit value"])
def c12_1(I, shape):
    """constant-time comparison helpers equal their plain meaning"""
    name = shape["fn"]
    f = getattr(ct, name)
    if name.startswith("ct_lsb"):
        v = I.uint(33, "v")
        r = f(v)
        full = 0xff if name.endswith("u8") else 0xffff
        I.check(r == ite((v & 1) == 1, full, 0), name)
        return
    a = I.uint(32, "a")
    if name == "ct_isnonzero_u32":
        I.check(f(a) == ite(a != 0, 1, 0), name)
        return
    b = I.uint(32, "b")
    spec = {"ct_lt_u32": a < b, "ct_gt_u32": a > b, "ct_le_u32": a <= b,
            "ct_neq_u32": a != b, "ct_eq_u32": a == b}[name]
    I.check(f(a, b) == ite(spec, 1, 0), name)


# ---------------------------------------------------------------------------
# C12.2  ct_check_cbc_mac_and_pad == plain specification
# ---------------------------------------------------------------------------

DIGESTS = {"md5": (16, 64), "sha1": (20, 64), "sha256": (32, 64),
           "sha384": (48, 128)}
VERSIONS = [(3, 0), (3, 1), (3, 2), (3, 3)]


def _proxies(shape):
    return ([(ct, "bytearray", mk_bytearray),
             (ct, "compatHMAC", lambda x: x),
             (ct, "max", sym_max),
             (ct, "min", sym_min)], [])


def _chunks(n):
    step = 256 if n <= 40 else 64 if n <= 80 else 32 if n <= 160 else 16
    return [[lo, lo + step] for lo in range(0, 256, step)]


def _shapes_c12_2(tier):
    """every shape fixes (version, MAC, body length n, block size) and a
    range of the last (padding length) byte; the union of the ranges of one
    (version, MAC, n, block) is always 0..255.  Everything else - all other
    body bytes, sequence number, content type - is symbolic."""
    combos = []
    # TLS 1.0-1.2 take one code path (the version only enters the MAC input
    # as two constant bytes): the thorough sweep over every n uses SSLv3 and
    # TLS 1.2; the quick tier keeps all four versions at its few lengths
    for ver in (VERSIONS if tier == "quick" else [(3, 0), (3, 3)]):
        for mac in ("md5", "sha1", "sha256", "sha384"):
            ds = DIGESTS[mac][0]
            if tier == "quick":
                ns = sorted(set([ds, ds + 1, ds + 2, ds + 13, 64]))
            else:
                ns = list(range(max(0, ds - 1), 81)) + [
                    96, 127, 128, 129, 160, 200, 254, 255, 256, 257,
                    256 + ds - 1, 256 + ds, 256 + ds + 1, 256 + ds + 2,
                    320, 383, 384, 385, 400]
            for n in ns:
                for bs in ((8, 16) if ver == (3, 0) and n <= 80 else (16,)):
                    combos.append((ver, mac, n, bs))
    out = []
    if tier == "quick":
        # one window-edge case: n just above 256 + digest (start_pos > 0 both
        # in the padding scan and in the MAC scan)
        combos.append(((3, 1), "sha1", 277, 16))
        combos.append(((3, 0), "md5", 130, 16))
    # alignment of the MAC position relative to the hash block size at the
    # far end of the 256-byte scanning window: (n - 256 - ds) mod hash-block
    # for maximal padding; only the large padding values matter there
    for ver, mac in (((3, 1), "sha1"), ((3, 3), "sha384"), ((3, 2), "md5"),
                     ((3, 3), "sha256")):
        ds, hb = DIGESTS[mac]
        if tier == "quick":
            aligns = {"sha1": (0, 31, 63), "sha384": (0, 127),
                      "md5": (62,), "sha256": (1,)}[mac]
        else:
            aligns = range(hb)
        for a in aligns:
            n = 256 + ds + a
            for lo in ((248,) if tier == "quick" else (224, 232, 240, 248)):
                out.append(dict(version=list(ver), mac=mac, n=n, block=16,
                                split=[lo, lo + 8]))
    for ver, mac, n, bs in combos:
        for rng in _chunks(n):
            out.append(dict(version=list(ver), mac=mac, n=n, block=bs,
                            split=rng))
    # heavy jobs first so that the pool drains evenly
    out.sort(key=lambda d: -d["n"])
    return out


def spec_cbc(data, mac_of, ds, version, block_size, last_values):
    """Plain specification: exists p == last byte such that the structure
    data = content || MAC(header(len(content)) || content) || padding(p)
    fits in the body and is right."""
    n = len(data)
    if n < ds + 1:
        return False
    last = data[n - 1]
    alts = []
    for p in last_values:
        clen = n - p - 1 - ds
        if clen < 0:
            continue
        if version == (3, 0):
            if p > block_size:
                continue
            padok = [last == p]
        else:
            padok = [data[n - 1 - j] == p for j in range(0, p + 1)]
        dg = mac_of(clen)
        macok = [data[clen + j] == dg[j] for j in range(ds)]
        alts.append(AND(padok + macok))
    return OR(alts) if alts else False


@obligation("C12.2", _shapes_c12_2,
            functions=["tlslite.utils.constanttime:ct_check_cbc_mac_and_pad",
                       "tlslite.utils.constanttime:ct_lsb_prop_u8",
                       "tlslite.utils.constanttime:ct_lt_u32",
                       "tlslite.utils.constanttime:ct_le_u32",
                       "tlslite.utils.constanttime:ct_eq_u32"],
            assumes=["HMAC/SSLv3-MAC object = uninterpreted function H of the "
                     "entire MAC input (per input length); copy/update/digest "
                     "interface",
                     "proxies: bytearray->SymBytes, compatHMAC->identity, "
                     "max/min->ite in constanttime.py",
                     "last byte restricted to [lo,hi) per job and concretised "
                     "per path; all 256 values covered by the union of the "
                     "jobs of one (version, MAC, n, block)"],
            patches=_proxies, timeout=(300, 1800), query_timeout=(120, 600),
            also=("C02",))
def c12_2(I, shape):
    """ct_check_cbc_mac_and_pad(body) <=> body well formed, for all bodies"""
    version = tuple(shape["version"])
    ds, bs = DIGESTS[shape["mac"]]
    n = shape["n"]
    block = shape["block"]
    data = I.bytes(n, "d")
    seq = I.bytes(8, "seq")
    ctype = I.byte("ctype")
    last_values = range(256)
    if n > 0:
        lo, hi = shape["split"]
        # case split on the padding-length byte: one path per value (a
        # monolithic query over all 256 values does not finish for n >= 28)
        last = I.pick(range(lo, hi), "last")
        data[n - 1] = last
        last_values = [last]
    mac = StubMac("mac", ds, bs)
    body = data[:] if is_concrete_mode() else SymBytes(data.v)
    got = ct.ct_check_cbc_mac_and_pad(body, mac, seq, ctype, version, block)

    def mac_of(clen):
        hdr = list(seq) + [ctype]
        if version != (3, 0):
            hdr += [version[0], version[1]]
        hdr += [clen >> 8, clen & 0xff]
        return H("mac", hdr + list(data)[:clen], ds)

    want = spec_cbc(list(data), mac_of, ds, version, block, last_values)
    I.check(IFF(got, want), "accepts-exactly-well-formed",
            detail=lambda: dict(impl=bool(got), spec=bool(want),
                                body=bytes(data).hex()))


# ---------------------------------------------------------------------------
# C12.3  the caller: _decryptThenMAC hands the right parameters to the check
#        and strips exactly MAC and padding
# ---------------------------------------------------------------------------
from models.fixtures import rl_proxies, make_layer, install_state, newbuf
from symx.core import assume
import tlslite.recordlayer as rl
from tlslite.errors import TLSBadRecordMAC, TLSDecryptionFailed


def _shapes_c12_3(tier):
    out = []
    for ver in VERSIONS:
        for block, macs in ((16, ("sha1", "sha256")), (8, ("sha1", "md5"))):
            for mac in macs:
                ds = DIGESTS[mac][0]
                if ver == (3, 0) and mac == "sha256":
                    continue
                base = ((ds + 1 + block - 1) // block) * block
                ns = [base, base + block] if tier == "quick" else \
                    [base, base + block, base + 2 * block, base + 3 * block]
                for n in ns:
                    step = 32 if tier == "quick" else 16
                    for lo in range(0, min(256, n + 8), step):
                        out.append(dict(version=list(ver), mac=mac, n=n,
                                        block=block, split=[lo, lo + step]))
    return out


@obligation("C12.3", _shapes_c12_3,
            functions=["tlslite.recordlayer:RecordLayer._decryptThenMAC",
                       "tlslite.utils.constanttime:ct_check_cbc_mac_and_pad"],
            assumes=["decryption = identity-free bijection model; the body "
                     "AFTER decryption (and explicit-IV removal) is the "
                     "symbolic object; MAC = uninterpreted function",
                     "last byte of the body case-split as in C12.2"],
            patches=lambda shape: (rl_proxies(), []),
            timeout=(300, 1500), also=("C02",))
def c12_3(I, shape):
    """_decryptThenMAC accepts exactly the well-formed bodies for the
    cipher's own block size and returns exactly the content"""
    version = tuple(shape["version"])
    ds, hb = DIGESTS[shape["mac"]]
    block = shape["block"]
    n = shape["n"]
    rs, rcv = make_layer(version, "cbc")
    install_state(rcv, rcv._readState, "cbc", "k", ds, block, stateless=True)
    rcv._readState.macContext.block_size = hb
    seq = I.uint(48, "seq")
    rcv._readState.seqnum = seq
    ctype = I.byte("ctype")
    body = I.bytes(n, "d")
    lo, hi = shape["split"]
    last = I.pick(range(lo, min(hi, 256)), "last")
    body[n - 1] = last
    iv = I.bytes(block, "iv") if version >= (3, 2) else newbuf()
    plain = newbuf(list(iv) + list(body))

    class Dec(object):
        """decrypt() returns the chosen plaintext whatever the ciphertext:
        the obligation quantifies over decrypted bodies"""
        isBlockCipher = True
        isAEAD = False
        block_size = block
        name = "3des" if block == 8 else "aes128"

        def decrypt(self, data):
            return newbuf(list(plain))
    rcv._readState.encContext = Dec()
    wire = newbuf([0] * len(plain))
    try:
        out = rcv._decryptThenMAC(ctype, wire)
        accepted = True
    except TLSBadRecordMAC:
        accepted = False

    seqb = list(seq.to_bytes(8, 'big')) if not isinstance(seq, int) \
        else list(seq.to_bytes(8, 'big'))

    def mac_of(clen):
        hdr = list(seqb) + [ctype]
        if version != (3, 0):
            hdr += [version[0], version[1]]
        hdr += [clen >> 8, clen & 0xff]
        return H("mack", hdr + list(body)[:clen], ds)

    want = spec_cbc(list(body), mac_of, ds, version, block, [last])
    I.check(IFF(accepted, want), "caller-accepts-exactly-well-formed")
    if accepted:
        clen = n - last - 1 - ds
        I.check(AND(len(out) == clen,
                    seq_eq(out, list(body)[:clen]) if len(out) == clen
                    else False), "caller-strips-mac-and-padding")
        I.check(rcv._readState.seqnum == seq + 1, "seqnum-advanced-once")
