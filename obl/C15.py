"""C15 - every message and extension codec round-trips and enforces framing."""
from lib.framework import obligation
from symx.core import (SymBytes, SymInt, AND, OR, NOT, seq_eq, assume,
                       is_concrete_mode, PathAbort, Unsupported)
from models.fixtures import newbuf
from models.codec_env import codec_proxies, CODEC_ASSUMES
from models import codec_targets as CT

import tlslite.messages as M
import tlslite.extensions as X
from tlslite.utils.codec import Parser, Writer, DecodeError
from tlslite.errors import TLSIllegalParameterException

DECODE_ERRORS = (SyntaxError, TLSIllegalParameterException)

CODEC_FUNCS = ["tlslite.utils.codec:Parser", "tlslite.utils.codec:Writer",
               "tlslite.extensions:TLSExtension.parse",
               "tlslite.extensions:TLSExtension.write"]


def _ext_lengths(tier):
    return list(range(0, 9)) if tier == "quick" else list(range(0, 17))


def _shapes_ext(tier):
    out = []
    for ctx, t in CT.ext_types():
        for L in _ext_lengths(tier):
            out.append(dict(ctx=ctx, ext=t, L=L))
    return out


def parse_ext(I, shape):
    """returns (buf, ext or None, exception or None)"""
    L = shape["L"]
    t = shape["ext"]
    payload = I.bytes(L, "x")
    buf = newbuf([t >> 8, t & 0xff, L >> 8, L & 0xff] + list(payload))
    p = Parser(newbuf(list(buf)))
    try:
        ext = X.TLSExtension(**CT.EXT_CONTEXTS[shape["ctx"]]).parse(p)
    except DECODE_ERRORS as e:
        return buf, None, e, p
    return buf, ext, None, p


@obligation("C15.1", _shapes_ext,
            functions=CODEC_FUNCS + ["tlslite.extensions:*.parse (every "
                                     "registered extension class)"],
            assumes=CODEC_ASSUMES + [
                "extension = concrete type and length L, L symbolic payload "
                "bytes; every registered (context, type) pair and one "
                "unregistered type per context"],
            patches=lambda s: (codec_proxies(), []), max_paths=30000)
def c15_1(I, shape):
    """extension parse-first identity: accept => all consumed and
    write(parse(b)) == b"""
    try:
        buf, ext, exc, p = parse_ext(I, shape)
    except (PathAbort, Unsupported):
        raise
    except Exception as e:
        # wrong exception type is C08's subject; here it only ends the path
        I.cover("other exception")
        return
    if ext is None:
        I.cover("rejected")
        return
    I.check(p.index == len(buf), "ext-consumes-declared-length")
    try:
        w = ext.write()
    except Exception as e:
        I.fail("ext-write-of-parsed-value-raised-%s" % type(e).__name__)
        return
    I.check(AND(len(w) == len(buf), seq_eq(w, buf) if len(w) == len(buf)
                else False), "ext-write-parse-identity",
            detail=lambda: dict(inp=bytes(buf).hex(), out=bytes(w).hex(),
                                cls=type(ext).__name__))


def _shapes_msg(tier):
    out = []
    for name, d in CT.HS.items():
        for n in d[tier]:
            out.append(dict(msg=name, n=n, framing="hs"))
    for name, d in CT.RAW.items():
        for n in d[tier]:
            out.append(dict(msg=name, n=n, framing="raw"))
    return out


def parse_msg(I, shape):
    n = shape["n"]
    name = shape["msg"]
    data = I.bytes(n, "m")
    if shape["framing"] == "hs":
        d = CT.HS[name]
        # the defragmenter hands over exactly one message: the 3-byte length
        # equals the number of bytes that follow
        if n >= 3:
            ln = n - 3
            assume(AND(data[0] == (ln >> 16) & 0xff, data[1] == (ln >> 8) & 0xff,
                       data[2] == ln & 0xff))
    else:
        d = CT.RAW[name]
    obj = d["factory"]()
    p = Parser(newbuf(list(data)))
    try:
        res = obj.parse(p)
    except DECODE_ERRORS + tuple(d.get("extra_errors", ())) as e:
        return data, None, e, p
    return data, res, None, p


@obligation("C15.2", _shapes_msg,
            functions=CODEC_FUNCS + ["tlslite.messages:*.parse / *.write "
                                     "(every message class, constructor "
                                     "arguments as used by _getMsg)"],
            assumes=CODEC_ASSUMES + [
                "handshake messages: n symbolic bytes whose 3-byte length "
                "field equals n-3 (what the defragmenter delivers); other "
                "messages: n arbitrary bytes",
                "X.509 bodies inside Certificate are opaque blobs",
                "classes that normalise by design (%s) are held to "
                "write(parse(write(parse(b)))) == write(parse(b)) instead of "
                "byte identity" % ", ".join(sorted(CT.NORMALISING)),
                "ServerKeyExchange.write precondition (TLS 1.2: hashAlg, "
                "signAlg non-zero) assumed before re-serialising",
                "Alert / ChangeCipherSpec / RecordHeader3 have fixed-size "
                "framing: the consumed prefix is compared"],
            patches=lambda s: (codec_proxies(), []), max_paths=30000,
            timeout=(300, 1200))
def c15_2(I, shape):
    """message parse-first identity: accept => write(parse(b)) == b"""
    name = shape["msg"]
    try:
        data, obj, exc, p = parse_msg(I, shape)
    except (PathAbort, Unsupported):
        raise
    except Exception as e:
        I.cover("other exception")
        return
    if obj is None:
        I.cover("rejected")
        return
    n = len(data)
    if shape["framing"] == "hs" and n < 3:
        I.fail("message-shorter-than-its-header-accepted")
        return
    if name in CT.PRE_WRITE:
        assume(CT.PRE_WRITE[name](obj))
    try:
        w = obj.write()
    except Exception as e:
        I.fail("write-of-parsed-value-raised-%s" % type(e).__name__)
        return
    if shape["framing"] == "hs":
        body = w[1:]
        I.check(w[0] == obj.handshakeType if len(w) else False,
                "handshake-type-byte")
    else:
        body = w
    if name in CT.FIXED:
        k = CT.FIXED[name]
        I.check(AND(p.index == k, len(body) == k,
                    seq_eq(body, data[:k]) if len(body) == k else False),
                "fixed-size-message-identity")
        return
    I.check(p.index == n, "msg-consumes-declared-length")
    if name in CT.NORMALISING:
        # idempotence: the normal form is a fixed point of parse;write
        d = (CT.HS if shape["framing"] == "hs" else CT.RAW)[name]
        obj2 = d["factory"]()
        try:
            obj2.parse(Parser(newbuf(list(body))))
            w2 = obj2.write()
        except Exception as e:
            I.fail("reparse-of-own-serialisation-raised-%s"
                   % type(e).__name__)
            return
        I.check(AND(len(w2) == len(w), seq_eq(w2, w) if len(w2) == len(w)
                    else False), "msg-normal-form-is-fixed-point",
                detail=lambda: dict(inp=bytes(data).hex(), w1=bytes(w).hex(),
                                    w2=bytes(w2).hex()))
        return
    I.check(AND(len(body) == n, seq_eq(body, data) if len(body) == n
                else False),
            "msg-write-parse-identity",
            detail=lambda: dict(inp=bytes(data).hex(), out=bytes(w).hex()))
