"""C01 - application data is delivered exactly, in order."""
from lib.framework import obligation
from symx.core import (SymBytes, SymInt, AND, OR, NOT, IFF, IMPLIES, seq_eq,
                       is_concrete_mode, assume, ite, mk_bytearray, sym_min,
                       sym_max)
from models.fixtures import (rl_proxies, MemSock, make_layer, install_state,
                             drain, newbuf, MODES)

import tlslite.recordlayer as rl
import tlslite.messages as msgs
from tlslite.messages import Message
from tlslite.constants import ContentType

RL_FUNCS = ["tlslite.recordlayer:RecordLayer.sendRecord",
            "tlslite.recordlayer:RecordLayer.recvRecord",
            "tlslite.recordlayer:RecordLayer._macThenEncrypt",
            "tlslite.recordlayer:RecordLayer._decryptThenMAC",
            "tlslite.recordlayer:RecordLayer._encryptThenMAC",
            "tlslite.recordlayer:RecordLayer._macThenDecrypt",
            "tlslite.recordlayer:RecordLayer._decryptStreamThenMAC",
            "tlslite.recordlayer:RecordLayer._encryptThenSeal",
            "tlslite.recordlayer:RecordLayer._decryptAndUnseal",
            "tlslite.recordlayer:RecordLayer._getNonce",
            "tlslite.recordlayer:RecordLayer.addPadding",
            "tlslite.recordlayer:RecordLayer.calculateMAC",
            "tlslite.recordlayer:RecordLayer._tls13_de_pad",
            "tlslite.recordlayer:RecordSocket.send",
            "tlslite.recordlayer:RecordSocket.recv",
            "tlslite.recordlayer:RecordSocket._recvHeader",
            "tlslite.recordlayer:ConnectionState.getSeqNumBytes",
            "tlslite.utils.constanttime:ct_check_cbc_mac_and_pad",
            "tlslite.messages:RecordHeader3.write",
            "tlslite.messages:RecordHeader3.parse",
            "tlslite.utils.codec:Writer.add",
            "tlslite.utils.codec:Parser.get"]

RL_ASSUMES = [
    "MAC = uninterpreted function of the whole MAC input (StubMac)",
    "block/stream cipher = per-call length-preserving bijection with "
    "D(E(x))=x, E(D(y))=y instantiated at each use (StubBlockCipher, "
    "StubStreamCipher); AEAD = bijection indexed by nonce + uninterpreted tag "
    "over (nonce, aad, ciphertext) (StubAEAD)",
    "writer and reader hold the same keys (same model names) and the same "
    "symbolic 48-bit sequence number",
    "content type in ContentType.all",
    "proxies: bytearray->SymBytes in recordlayer/messages/codec/constanttime, "
    "bytes_to_int->bit-vector concat, compatHMAC->identity, "
    "ct_compare_digest->pure-Python fallback, max/min->ite",
]


def _lengths(tier, block):
    b = block or 16
    if tier == "quick":
        return sorted(set([0, 1, 2, b - 2, b - 1, b, b + 1, 2 * b - 1,
                           2 * b + 1]))
    return list(range(0, 4 * b + 2))


def _shapes_c01_1(tier):
    out = []
    for mode, (kind, versions) in MODES.items():
        for ver in versions:
            if kind in ("cbc", "cbc-etm"):
                combos = [(16, 20), (8, 20), (16, 32), (16, 16), (16, 48)]
                if ver == (3, 0):
                    combos = [(16, 20), (8, 20), (16, 16)]
                if tier == "quick":
                    combos = combos[:3] if ver in ((3, 0), (3, 3)) \
                        else combos[:1]
            elif kind == "stream":
                combos = [(None, 20), (None, 16)] if tier != "quick" \
                    else [(None, 20 if ver != (3, 0) else 16)]
            else:
                combos = [(None, 0)]
            for block, mac in combos:
                for n in _lengths(tier, block):
                    out.append(dict(mode=mode, version=list(ver), block=block,
                                    mac=mac, n=n, records=1))
                if tier != "quick" or mode in ("cbc", "tls13", "aead-xor"):
                    # two records in sequence through the same states
                    for n in ((1, 17) if tier == "quick"
                              else (0, 1, 15, 16, 17, 33)):
                        out.append(dict(mode=mode, version=list(ver),
                                        block=block, mac=mac, n=n, records=2))
    return out


def _setup_pair(I, shape):
    mode = shape["mode"]
    version = tuple(shape["version"])
    block = shape["block"] or 16
    ss, snd = make_layer(version, mode)
    rs, rcv = make_layer(version, mode)
    seq = I.uint(48, "seq")
    nonce = None
    if MODES[mode][0] == "aead":
        nonce = I.bytes(4 if mode == "aead-explicit" else 12, "fixednonce")
    install_state(snd, snd._writeState, mode, "k", shape["mac"], block,
                  fixed_nonce=nonce)
    install_state(rcv, rcv._readState, mode, "k", shape["mac"], block,
                  fixed_nonce=nonce)
    snd._writeState.seqnum = seq
    rcv._readState.seqnum = seq
    if mode in ("cbc", "cbc-etm") and version >= (3, 2):
        snd.fixedIVBlock = I.bytes(block, "iv")
    return ss, snd, rs, rcv, seq


@obligation("C01.1", _shapes_c01_1, functions=RL_FUNCS, assumes=RL_ASSUMES,
            patches=lambda shape: (rl_proxies(), []),
            timeout=(240, 900))
def c01_1(I, shape):
    """record round trip: reader yields exactly (type, plaintext)"""
    mode = shape["mode"]
    version = tuple(shape["version"])
    n = shape["n"]
    ss, snd, rs, rcv, seq = _setup_pair(I, shape)
    limit_holder = {}
    if mode == "tls13":
        # user padding callback: any amount of padding it is allowed to add
        snd.send_record_limit = I.int_range(n + 1, n + 6, "sendlimit")

        def padding_cb(length, ctype, max_padding):
            limit_holder["max"] = max_padding
            limit_holder["len"] = length
            pad = I.int_range(0, 5, "pad")
            assume(pad <= max_padding)
            return pad
        snd.padding_cb = padding_cb
    sent = []
    for k in range(shape["records"]):
        ctype = I.byte("ctype")
        assume(OR([ctype == t for t in ContentType.all]))
        data = I.bytes(n, "p")
        sent.append((ctype, data))
        before = len(ss.out)
        try:
            drain(snd.sendRecord(Message(ctype, newbuf(list(data)))))
        except Exception as e:
            I.fail("sendRecord raised %s" % type(e).__name__)
            return
        wire = ss.out[before:]
        # header length field = number of bytes that follow the header
        I.check(AND(wire[3] == (len(wire) - 5) >> 8,
                    wire[4] == (len(wire) - 5) & 0xff), "wire-length-field")
        if mode == "tls13" and "max" in limit_holder:
            # plaintext + content type + padding stays within the limit
            inner = len(wire) - 5 - 16
            I.check(inner <= snd.send_record_limit + 1,
                    "tls13-padding-within-limit")
    rs.inp = newbuf(list(ss.out))
    for k, (ctype, data) in enumerate(sent):
        try:
            res = drain(rcv.recvRecord())
        except Exception as e:
            I.fail("recvRecord raised %s on an untouched record"
                   % type(e).__name__)
            return
        hdr, parser = res
        I.check(AND(hdr.type == ctype, len(parser.bytes) == n,
                    seq_eq(parser.bytes, data) if len(parser.bytes) == n
                    else False),
                "delivered-exactly", detail=lambda: dict(
                    got_type=hdr.type, want_type=ctype,
                    got=bytes(parser.bytes).hex(), want=bytes(data).hex()))
    I.check(len(rs.inp) == 0, "all-wire-consumed")
    inc = 0 if (mode == "null") else shape["records"]
    if mode == "tls13":
        # unprotected CCS does not consume a sequence number in TLS 1.3
        nccs = 0
        for ctype, _d in sent:
            nccs = nccs + ite(ctype == ContentType.change_cipher_spec, 1, 0)
        I.check(AND(snd._writeState.seqnum == seq + inc - nccs,
                    rcv._readState.seqnum == seq + inc - nccs),
                "seqnum-advanced-once")
    else:
        I.check(AND(snd._writeState.seqnum == seq + inc,
                    rcv._readState.seqnum == seq + inc),
                "seqnum-advanced-once")


# ---------------------------------------------------------------------------
# C01.2  fragmentation and record-size limits (TLSRecordLayer._sendMsg)
# ---------------------------------------------------------------------------
from models.conn import (conn_proxies, CONN_ASSUMES, make_conn, record,
                         FaultSock, split_records)
import tlslite.tlsrecordlayer as trl
from tlslite.messages import ApplicationData


def _shapes_c01_2(tier):
    out = []
    lens = (0, 1, 3, 4, 5, 8, 9, 12) if tier == "quick" else range(0, 41)
    for n in lens:
        for ctype in ("application_data", "handshake", "heartbeat"):
            out.append(dict(n=n, ctype=ctype))
    return out


@obligation("C01.2", _shapes_c01_2,
            functions=["tlslite.tlsrecordlayer:TLSRecordLayer._sendMsg",
                       "tlslite.tlsrecordlayer:TLSRecordLayer.recordSize",
                       "tlslite.tlsrecordlayer:TLSRecordLayer."
                       "_sendMsgThroughSocket",
                       "tlslite.messages:ApplicationData.splitFirstByte",
                       "tlslite.recordlayer:RecordLayer.sendRecord"],
            assumes=CONN_ASSUMES + [
                "user record limit and negotiated limit are symbolic "
                "integers 1..6 (the code treats limits as ordinary integers; "
                "2^14 is not special to _sendMsg), message contents symbolic, "
                "message length enumerated; version and CBC mode picked by "
                "symbolic selectors"],
            patches=lambda s: (conn_proxies(), []), max_paths=20000,
            also=("C16", "C14"))
def c01_2(I, shape):
    """fragments concatenate to the message, none exceeds min(user limit,
    negotiated limit), all but the last are full, no empty fragment is added,
    and the 1/n-1 split happens exactly for CBC application data in
    SSLv3/TLS 1.0"""
    n = shape["n"]
    ctype = getattr(ContentType, shape["ctype"])
    data = I.bytes(n, "msg")
    version = I.pick([(3, 1), (3, 3), (3, 4)], "version")
    conn, sock = make_conn(version, True)
    user = I.int_range(1, 6, "user_limit")
    nego = I.int_range(1, 6, "negotiated_limit")
    conn._user_record_limit = user
    conn._recordLayer.send_record_limit = nego
    cbc = I.pick([False, True], "cbc")
    if cbc:
        conn._recordLayer.isCBCMode = lambda: True
    msg = Message(ctype, newbuf(list(data))) if ctype != \
        ContentType.application_data else \
        ApplicationData().create(newbuf(list(data)))
    for _ in conn._sendMsg(msg):
        pass
    recs = split_records(sock.out)
    limit = int(conn.recordSize)
    payload = []
    for t, v, p in recs:
        payload += list(p)
    I.check(len(payload) == n and bool(seq_eq(payload, data)),
            "fragments-concatenate-to-the-message")
    I.check(all(t == ctype for t, v, p in recs), "content-type-preserved")
    I.check(AND(limit <= user, limit <= nego, OR(limit == user,
                                                 limit == nego)),
            "record-size-is-the-smaller-limit")
    I.check(all(len(p) <= limit for t, v, p in recs),
            "no-fragment-exceeds-the-limit-in-force")
    split = cbc and version <= (3, 1) and \
        ctype == ContentType.application_data
    body = recs
    if split:
        I.check(len(recs) >= 1 and len(recs[0][2]) == min(1, n),
                "one-byte-first-record-for-cbc-in-tls10")
        body = recs[1:]
        rest = max(0, n - 1)
    else:
        rest = n
    if split and n <= 1:
        I.check(body == [], "split-of-tiny-write-adds-no-empty-record")
        return
    want = max(1, -(-rest // limit))
    I.check(len(body) == want, "minimal-number-of-fragments",
            detail=lambda: dict(n=n, limit=limit, records=[len(p) for t, v, p
                                                           in recs]))
    I.check(all(len(p) == limit for t, v, p in body[:-1]),
            "all-but-the-last-fragment-are-full")


# ---------------------------------------------------------------------------
# C01.3  read buffer: read(max, min) partitions the stream exactly
# ---------------------------------------------------------------------------

def _shapes_c01_3(tier):
    out = []
    for lens in (((2, 1), (3,), (1, 0, 2)) if tier == "quick"
                 else ((2, 1), (3,), (1, 0, 2), (4, 4), (0, 3, 1))):
        for end in ("close_notify", "more"):
            out.append(dict(lens=list(lens), end=end))
    return out


@obligation("C01.3", _shapes_c01_3,
            functions=["tlslite.tlsrecordlayer:TLSRecordLayer.readAsync",
                       "tlslite.tlsrecordlayer:TLSRecordLayer.unread",
                       "tlslite.tlsrecordlayer:TLSRecordLayer._shutdown",
                       "tlslite.tlsrecordlayer:TLSRecordLayer._getMsg"],
            assumes=CONN_ASSUMES + [
                "wire = application-data records of the enumerated lengths "
                "with symbolic contents, then close_notify (or nothing more, "
                "transport blocks); three read(max, min) calls with symbolic "
                "max in 0..4/None and min in 0..3"],
            patches=lambda s: (conn_proxies(), []), max_paths=30000,
            timeout=(300, 1200))
def c01_3(I, shape):
    """the bytes returned by successive reads are a prefix-exact partition
    of what the peer wrote; nothing is lost at close"""
    from tlslite.constants import AlertDescription, AlertLevel
    parts = [I.bytes(k, "rec") for k in shape["lens"]]
    stream = []
    wire = []
    for p in parts:
        stream += list(p)
        wire += record(ContentType.application_data, p)
    closing = shape["end"] == "close_notify"
    if closing:
        wire += record(ContentType.alert, [AlertLevel.warning,
                                           AlertDescription.close_notify])
    sock = FaultSock(wire, block_when_empty=not closing)
    conn, sock = make_conn((3, 3), True, sock=sock)
    got = []
    total = len(stream)
    for call in range(3):
        mx = I.pick([None, 0, 1, 2, 4], "max")
        mn = I.pick([0, 1, 2, 3], "min")
        blocked = False
        val = None
        for r in conn.readAsync(max=mx, min=mn):
            if isinstance(r, int) and not isinstance(r, bool):
                if r == 0:
                    blocked = True
                    break
                continue
            val = r
        if blocked:
            # would block: nothing may have been consumed from what we have
            # not been given yet; stop here
            break
        if mx is not None:
            I.check(len(val) <= mx, "at-most-max-bytes")
        avail_before = total - len(got)
        if not conn.closed and mn <= avail_before:
            I.check(len(val) >= min(mn, avail_before if mx is None
                                    else min(mx, avail_before)),
                    "at-least-min-bytes-when-available")
        got += list(val)
    # drain what is left without touching the socket again
    rest = list(conn._readBuffer)
    I.check(len(got) <= total and bool(seq_eq(got, stream[:len(got)])),
            "reads-return-a-prefix-of-the-stream-in-order")
    if closing and conn.closed:
        # everything the peer wrote before close_notify is still readable
        more = []
        for _ in range(4):
            r = None
            for r in conn.readAsync(max=None, min=0):
                pass
            more += list(r)
        I.check(len(got) + len(more) == total and
                bool(seq_eq(got + more, stream)),
                "nothing-lost-at-orderly-close")
