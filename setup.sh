#!/bin/sh
# Build the overlay virtualenv used by every check: /venv's interpreter and
# site-packages (the repository's own environment) plus z3-solver and
# crosshair-tool from the offline wheelhouse.  Idempotent.
set -e
HERE="$(cd "$(dirname "$0")" && pwd)"
V="$HERE/.venv"
if [ -x "$V/bin/python" ] && "$V/bin/python" -c "import z3, crosshair" 2>/dev/null; then
    exit 0
fi
# serialise concurrent callers (checks run in parallel may all find no venv)
exec 9>"$HERE/.venv.lock"
flock 9
if [ -x "$V/bin/python" ] && "$V/bin/python" -c "import z3, crosshair" 2>/dev/null; then
    exit 0
fi
rm -rf "$V"
/venv/bin/python -m venv "$V"
SP="$V/lib/python3.12/site-packages"
echo "import site; site.addsitedir('/venv/lib/python3.12/site-packages')" > "$SP/_overlay.pth"
PIP_NO_INDEX=1 "$V/bin/pip" install -q --no-index --find-links /opt/veriftools/wheels \
    z3-solver crosshair-tool >/dev/null
"$V/bin/python" -c "import z3, crosshair; print('verif venv ready: z3', z3.get_version_string())"
