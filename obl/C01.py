"""C01 - application data is delivered exactly, in order."""
from lib.framework import obligation
from symx.core import (SymBytes, SymInt, AND, OR, NOT, IFF, IMPLIES, seq_eq,
                       is_concrete_mode, assume, ite, mk_bytearray, sym_min,
                       sym_max)
from models.fixtures import (rl_proxies, MemSock, make_layer, install_state,
                             drain, newbuf, MODES)

import tlslite.recordlayer as rl
import tlslite.messages as msgs
from tlslite.messages import Message
from tlslite.constants import ContentType

RL_FUNCS = ["tlslite.recordlayer:RecordLayer.sendRecord",
            "tlslite.recordlayer:RecordLayer.recvRecord",
            "tlslite.recordlayer:RecordLayer._macThenEncrypt",
            "tlslite.recordlayer:RecordLayer._decryptThenMAC",
            "tlslite.recordlayer:RecordLayer._encryptThenMAC",
            "tlslite.recordlayer:RecordLayer._macThenDecrypt",
            "tlslite.recordlayer:RecordLayer._decryptStreamThenMAC",
            "tlslite.recordlayer:RecordLayer._encryptThenSeal",
            "tlslite.recordlayer:RecordLayer._decryptAndUnseal",
            "tlslite.recordlayer:RecordLayer._getNonce",
            "tlslite.recordlayer:RecordLayer.addPadding",
            "tlslite.recordlayer:RecordLayer.calculateMAC",
            "tlslite.recordlayer:RecordLayer._tls13_de_pad",
            "tlslite.recordlayer:RecordSocket.send",
            "tlslite.recordlayer:RecordSocket.recv",
            "tlslite.recordlayer:RecordSocket._recvHeader",
            "tlslite.recordlayer:ConnectionState.getSeqNumBytes",
            "tlslite.utils.constanttime:ct_check_cbc_mac_and_pad",
            "tlslite.messages:RecordHeader3.write",
            "tlslite.messages:RecordHeader3.parse",
            "tlslite.utils.codec:Writer.add",
            "tlslite.utils.codec:Parser.get"]

RL_ASSUMES = [
    "MAC = uninterpreted function of the whole MAC input (StubMac)",
    "block/stream cipher = per-call length-preserving bijection with "
    "D(E(x))=x, E(D(y))=y instantiated at each use (StubBlockCipher, "
    "StubStreamCipher); AEAD = bijection indexed by nonce + uninterpreted tag "
    "over (nonce, aad, ciphertext) (StubAEAD)",
    "writer and reader hold the same keys (same model names) and the same "
    "symbolic 48-bit sequence number",
    "content type in ContentType.all",
    "proxies: bytearray->SymBytes in recordlayer/messages/codec/constanttime, "
    "bytes_to_int->bit-vector concat, compatHMAC->identity, "
    "ct_compare_digest->pure-Python fallback, max/min->ite",
]


def _lengths(tier, block):
    b = block or 16
    if tier == "quick":
        return sorted(set([0, 1, 2, b - 2, b - 1, b, b + 1, 2 * b - 1,
                           2 * b + 1]))
    return list(range(0, 4 * b + 2))


def _shapes_c01_1(tier):
    out = []
    for mode, (kind, versions) in MODES.items():
        for ver in versions:
            if kind in ("cbc", "cbc-etm"):
                combos = [(16, 20), (8, 20), (16, 32), (16, 16), (16, 48)]
                if ver == (3, 0):
                    combos = [(16, 20), (8, 20), (16, 16)]
                if tier == "quick":
                    combos = combos[:3] if ver in ((3, 0), (3, 3)) \
                        else combos[:1]
            elif kind == "stream":
                combos = [(None, 20), (None, 16)] if tier != "quick" \
                    else [(None, 20 if ver != (3, 0) else 16)]
            else:
                combos = [(None, 0)]
            for block, mac in combos:
                for n in _lengths(tier, block):
                    out.append(dict(mode=mode, version=list(ver), block=block,
                                    mac=mac, n=n, records=1))
                if tier != "quick" or mode in ("cbc", "tls13", "aead-xor"):
                    # two records in sequence through the same states
                    for n in ((1, 17) if tier == "quick"
                              else (0, 1, 15, 16, 17, 33)):
                        out.append(dict(mode=mode, version=list(ver),
                                        block=block, mac=mac, n=n, records=2))
    return out


def _setup_pair(I, shape):
    mode = shape["mode"]
    version = tuple(shape["version"])
    block = shape["block"] or 16
    ss, snd = make_layer(version, mode)
    rs, rcv = make_layer(version, mode)
    seq = I.uint(48, "seq")
    nonce = None
    if MODES[mode][0] == "aead":
        nonce = I.bytes(4 if mode == "aead-explicit" else 12, "fixednonce")
    install_state(snd, snd._writeState, mode, "k", shape["mac"], block,
                  fixed_nonce=nonce)
    install_state(rcv, rcv._readState, mode, "k", shape["mac"], block,
                  fixed_nonce=nonce)
    snd._writeState.seqnum = seq
    rcv._readState.seqnum = seq
    if mode in ("cbc", "cbc-etm") and version >= (3, 2):
        snd.fixedIVBlock = I.bytes(block, "iv")
    return ss, snd, rs, rcv, seq


@obligation("C01.1", _shapes_c01_1, functions=RL_FUNCS, assumes=RL_ASSUMES,
            patches=lambda shape: (rl_proxies(), []),
            timeout=(240, 900))
def c01_1(I, shape):
    """record round trip: reader yields exactly (type, plaintext)"""
    mode = shape["mode"]
    version = tuple(shape["version"])
    n = shape["n"]
    ss, snd, rs, rcv, seq = _setup_pair(I, shape)
    limit_holder = {}
    if mode == "tls13":
        # user padding callback: any amount of padding it is allowed to add
        snd.send_record_limit = I.int_range(n + 1, n + 6, "sendlimit")

        def padding_cb(length, ctype, max_padding):
            limit_holder["max"] = max_padding
            limit_holder["len"] = length
            pad = I.int_range(0, 5, "pad")
            assume(pad <= max_padding)
            return pad
        snd.padding_cb = padding_cb
    sent = []
    for k in range(shape["records"]):
        ctype = I.byte("ctype")
        assume(OR([ctype == t for t in ContentType.all]))
        data = I.bytes(n, "p")
        sent.append((ctype, data))
        before = len(ss.out)
        try:
            drain(snd.sendRecord(Message(ctype, newbuf(list(data)))))
        except Exception as e:
            I.fail("sendRecord raised %s" % type(e).__name__)
            return
        wire = ss.out[before:]
        # header length field = number of bytes that follow the header
        I.check(AND(wire[3] == (len(wire) - 5) >> 8,
                    wire[4] == (len(wire) - 5) & 0xff), "wire-length-field")
        if mode == "tls13" and "max" in limit_holder:
            # plaintext + content type + padding stays within the limit
            inner = len(wire) - 5 - 16
            I.check(inner <= snd.send_record_limit + 1,
                    "tls13-padding-within-limit")
    rs.inp = newbuf(list(ss.out))
    for k, (ctype, data) in enumerate(sent):
        try:
            res = drain(rcv.recvRecord())
        except Exception as e:
            I.fail("recvRecord raised %s on an untouched record"
                   % type(e).__name__)
            return
        hdr, parser = res
        I.check(AND(hdr.type == ctype, len(parser.bytes) == n,
                    seq_eq(parser.bytes, data) if len(parser.bytes) == n
                    else False),
                "delivered-exactly", detail=lambda: dict(
                    got_type=hdr.type, want_type=ctype,
                    got=bytes(parser.bytes).hex(), want=bytes(data).hex()))
    I.check(len(rs.inp) == 0, "all-wire-consumed")
    inc = 0 if (mode == "null") else shape["records"]
    if mode == "tls13":
        # unprotected CCS does not consume a sequence number in TLS 1.3
        nccs = 0
        for ctype, _d in sent:
            nccs = nccs + ite(ctype == ContentType.change_cipher_spec, 1, 0)
        I.check(AND(snd._writeState.seqnum == seq + inc - nccs,
                    rcv._readState.seqnum == seq + inc - nccs),
                "seqnum-advanced-once")
    else:
        I.check(AND(snd._writeState.seqnum == seq + inc,
                    rcv._readState.seqnum == seq + inc),
                "seqnum-advanced-once")
