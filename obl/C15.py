"""C15 - every message and extension codec round-trips and enforces framing."""
from lib.framework import obligation
from symx.core import (SymBytes, SymInt, AND, OR, NOT, IFF, IMPLIES, seq_eq, assume,
                       is_concrete_mode, PathAbort, Unsupported)
from models.fixtures import newbuf
from models.codec_env import codec_proxies, CODEC_ASSUMES
from models import codec_targets as CT

import tlslite.messages as M
from tlslite.constants import HandshakeType as _HT
HandshakeType_finished = _HT.finished
import tlslite.extensions as X
from tlslite.utils.codec import Parser, Writer, DecodeError
from tlslite.errors import TLSIllegalParameterException

DECODE_ERRORS = (SyntaxError, TLSIllegalParameterException)

CODEC_FUNCS = ["tlslite.utils.codec:Parser", "tlslite.utils.codec:Writer",
               "tlslite.extensions:TLSExtension.parse",
               "tlslite.extensions:TLSExtension.write"]


def _ext_lengths(tier):
    return list(range(0, 9)) if tier == "quick" else list(range(0, 17))


def _shapes_ext(tier):
    out = []
    for ctx, t in CT.ext_types():
        for L in _ext_lengths(tier):
            if L >= 15 and t in (16, 13172):
                # ALPN / NPN name lists: 15-16 payload bytes exceed the path
                # budget (every split into names is a path)
                continue
            out.append(dict(ctx=ctx, ext=t, L=L))
    return out


def parse_ext(I, shape):
    """returns (buf, ext or None, exception or None)"""
    L = shape["L"]
    t = shape["ext"]
    payload = I.bytes(L, "x")
    buf = newbuf([t >> 8, t & 0xff, L >> 8, L & 0xff] + list(payload))
    p = Parser(newbuf(list(buf)))
    try:
        ext = X.TLSExtension(**CT.EXT_CONTEXTS[shape["ctx"]]).parse(p)
    except DECODE_ERRORS as e:
        return buf, None, e, p
    return buf, ext, None, p


@obligation("C15.1", _shapes_ext,
            functions=CODEC_FUNCS + ["tlslite.extensions:*.parse (every "
                                     "registered extension class)"],
            assumes=CODEC_ASSUMES + [
                "extension = concrete type and length L, L symbolic payload "
                "bytes; every registered (context, type) pair and one "
                "unregistered type per context"],
            patches=lambda s: (codec_proxies(), []), max_paths=30000)
def c15_1(I, shape):
    """extension parse-first identity: accept => all consumed and
    write(parse(b)) == b"""
    try:
        buf, ext, exc, p = parse_ext(I, shape)
    except (PathAbort, Unsupported):
        raise
    except Exception as e:
        # wrong exception type is C08's subject; here it only ends the path
        I.cover("other exception")
        return
    if ext is None:
        I.cover("rejected")
        return
    I.check(p.index == len(buf), "ext-consumes-declared-length")
    try:
        w = ext.write()
    except Exception as e:
        I.fail("ext-write-of-parsed-value-raised-%s" % type(e).__name__)
        return
    I.check(AND(len(w) == len(buf), seq_eq(w, buf) if len(w) == len(buf)
                else False), "ext-write-parse-identity",
            detail=lambda: dict(inp=bytes(buf).hex(), out=bytes(w).hex(),
                                cls=type(ext).__name__))


def _shapes_msg(tier):
    out = []
    for name, d in CT.HS.items():
        for n in d[tier]:
            out.append(dict(msg=name, n=n, framing="hs"))
    for name, d in CT.RAW.items():
        for n in d[tier]:
            out.append(dict(msg=name, n=n, framing="raw"))
    return out


def parse_msg(I, shape):
    n = shape["n"]
    name = shape["msg"]
    data = I.bytes(n, "m")
    if shape["framing"] == "hs":
        d = CT.HS[name]
        # the defragmenter hands over exactly one message: the 3-byte length
        # equals the number of bytes that follow
        if n >= 3:
            ln = n - 3
            assume(AND(data[0] == (ln >> 16) & 0xff, data[1] == (ln >> 8) & 0xff,
                       data[2] == ln & 0xff))
    else:
        d = CT.RAW[name]
    obj = d["factory"]()
    p = Parser(newbuf(list(data)))
    try:
        res = obj.parse(p)
    except DECODE_ERRORS + tuple(d.get("extra_errors", ())) as e:
        return data, None, e, p
    return data, res, None, p


@obligation("C15.2", _shapes_msg,
            functions=CODEC_FUNCS + ["tlslite.messages:*.parse / *.write "
                                     "(every message class, constructor "
                                     "arguments as used by _getMsg)"],
            assumes=CODEC_ASSUMES + [
                "handshake messages: n symbolic bytes whose 3-byte length "
                "field equals n-3 (what the defragmenter delivers); other "
                "messages: n arbitrary bytes",
                "X.509 bodies inside Certificate are opaque blobs",
                "classes that normalise by design (%s) are held to "
                "write(parse(write(parse(b)))) == write(parse(b)) instead of "
                "byte identity" % ", ".join(sorted(CT.NORMALISING)),
                "ServerKeyExchange.write precondition (TLS 1.2: hashAlg, "
                "signAlg non-zero) assumed before re-serialising",
                "Alert / ChangeCipherSpec / RecordHeader3 have fixed-size "
                "framing: the consumed prefix is compared"],
            patches=lambda s: (codec_proxies(), []), max_paths=30000,
            timeout=(300, 1200))
def c15_2(I, shape):
    """message parse-first identity: accept => write(parse(b)) == b"""
    name = shape["msg"]
    try:
        data, obj, exc, p = parse_msg(I, shape)
    except (PathAbort, Unsupported):
        raise
    except Exception as e:
        I.cover("other exception")
        return
    if obj is None:
        I.cover("rejected")
        return
    n = len(data)
    if shape["framing"] == "hs" and n < 3:
        I.fail("message-shorter-than-its-header-accepted")
        return
    if name in CT.PRE_WRITE:
        assume(CT.PRE_WRITE[name](obj))
    exts = getattr(obj, "extensions", None)
    if exts and name in ("ClientHello", "ServerHello"):
        # RFC 8446 4.2 / RFC 5246 7.4.1.4: one extension per type.  The hello
        # parsers keep duplicates (the handshake code refuses them through
        # getExtension()), write() of such a value is not defined: outside
        # the round-trip claim
        types = [e.extType for e in exts]
        if any(bool(a == b) for i, a in enumerate(types)
               for b in types[i + 1:]):
            I.cover("duplicate-extension-types")
            return
    try:
        w = obj.write()
    except Exception as e:
        I.fail("write-of-parsed-value-raised-%s" % type(e).__name__)
        return
    if shape["framing"] == "hs":
        body = w[1:]
        I.check(w[0] == obj.handshakeType if len(w) else False,
                "handshake-type-byte")
    else:
        body = w
    if name in CT.FIXED:
        k = CT.FIXED[name]
        I.check(AND(p.index == k, len(body) == k,
                    seq_eq(body, data[:k]) if len(body) == k else False),
                "fixed-size-message-identity")
        return
    I.check(p.index == n, "msg-consumes-declared-length")
    if name in CT.NORMALISING:
        # idempotence: the normal form is a fixed point of parse;write
        d = (CT.HS if shape["framing"] == "hs" else CT.RAW)[name]
        obj2 = d["factory"]()
        try:
            obj2.parse(Parser(newbuf(list(body))))
            w2 = obj2.write()
        except Exception as e:
            I.fail("reparse-of-own-serialisation-raised-%s"
                   % type(e).__name__)
            return
        I.check(AND(len(w2) == len(w), seq_eq(w2, w) if len(w2) == len(w)
                    else False), "msg-normal-form-is-fixed-point",
                detail=lambda: dict(inp=bytes(data).hex(), w1=bytes(w).hex(),
                                    w2=bytes(w2).hex()))
        return
    I.check(AND(len(body) == n, seq_eq(body, data) if len(body) == n
                else False),
            "msg-write-parse-identity",
            detail=lambda: dict(inp=bytes(data).hex(), out=bytes(w).hex()))


# ---------------------------------------------------------------------------
# C15.3  Writer / Parser primitives with symbolic values
# ---------------------------------------------------------------------------
import struct as _struct


def _shapes_prim(tier):
    out = []
    for width in (1, 2, 3, 4):
        out.append(dict(op="add", width=width))
        out.append(dict(op="addN", width=width))
    for ll in (1, 2, 3):
        for n in (0, 1, 3):
            out.append(dict(op="add_var_bytes", ll=ll, n=n))
    for width in (1, 2, 3):
        for ll in (1, 2):
            for k in (0, 1, 2):
                out.append(dict(op="addVarSeq", width=width, ll=ll, k=k))
    out.append(dict(op="addVarTupleSeq"))
    out.append(dict(op="postWrite"))
    for n in (0, 1, 2, 3, 5):
        out.append(dict(op="getVarList", n=n))
        out.append(dict(op="getVarTupleList", n=n))
        out.append(dict(op="lengthcheck", n=n))
    return out


@obligation("C15.3", _shapes_prim,
            functions=["tlslite.utils.codec:Writer.add",
                       "tlslite.utils.codec:Writer.addOne",
                       "tlslite.utils.codec:Writer.addTwo",
                       "tlslite.utils.codec:Writer.addThree",
                       "tlslite.utils.codec:Writer.addFour",
                       "tlslite.utils.codec:Writer.addVarSeq",
                       "tlslite.utils.codec:Writer.addVarTupleSeq",
                       "tlslite.utils.codec:Writer.add_var_bytes",
                       "tlslite.messages:HandshakeMsg.postWrite",
                       "tlslite.utils.codec:Parser.get",
                       "tlslite.utils.codec:Parser.getVarList",
                       "tlslite.utils.codec:Parser.getVarTupleList",
                       "tlslite.utils.codec:Parser.startLengthCheck",
                       "tlslite.utils.codec:Parser.stopLengthCheck",
                       "tlslite.utils.codec:Parser.atLengthCheck"],
            assumes=CODEC_ASSUMES + [
                "integer values symbolic over 34 bits (beyond every field "
                "width); buffers symbolic with enumerated length"],
            patches=lambda s: (codec_proxies(), []), max_paths=5000)
def c15_3(I, shape):
    """serialisation never truncates or wraps: a value that does not fit its
    field raises ValueError; length prefixes equal the byte count; parser
    primitives consume exactly what the framing declares"""
    op = shape["op"]
    if op in ("add", "addN"):
        w = shape["width"]
        v = I.uint(34, "v")
        wr = Writer()
        try:
            if op == "add":
                wr.add(v, w)
            else:
                {1: wr.addOne, 2: wr.addTwo, 3: wr.addThree,
                 4: wr.addFour}[w](v)
            ok = True
        except ValueError:
            ok = False
        except Exception as e:
            I.fail("%s raised %s" % (op, type(e).__name__))
            return
        fits = v < (1 << (8 * w))
        I.check(IFF(ok, fits), "overflow-raises-ValueError-never-truncates")
        if ok:
            want = [(v >> (8 * (w - 1 - j))) & 0xff for j in range(w)]
            I.check(len(wr.bytes) == w and bool(seq_eq(wr.bytes, want)),
                    "big-endian-encoding")
        return
    if op == "add_var_bytes":
        data = I.bytes(shape["n"], "d")
        wr = Writer()
        wr.add_var_bytes(newbuf(list(data)), shape["ll"])
        ll, n = shape["ll"], shape["n"]
        want = [(n >> (8 * (ll - 1 - j))) & 0xff for j in range(ll)] + \
            list(data)
        I.check(seq_eq(wr.bytes, want), "length-prefix-equals-byte-count")
        p = Parser(newbuf(list(wr.bytes)))
        back = p.getVarBytes(ll)
        I.check(AND(seq_eq(back, data), p.index == len(want)),
                "getVarBytes-inverts-add_var_bytes")
        return
    if op == "addVarSeq":
        w, ll, k = shape["width"], shape["ll"], shape["k"]
        vals = [I.uint(26, "e") for _ in range(k)]
        wr = Writer()
        try:
            wr.addVarSeq(vals, w, ll)
            ok = True
        except ValueError:
            ok = False
        fits = AND([v < (1 << (8 * w)) for v in vals])
        I.check(IFF(ok, fits), "list-element-overflow-raises")
        if ok:
            n = k * w
            want = [(n >> (8 * (ll - 1 - j))) & 0xff for j in range(ll)]
            for v in vals:
                want += [(v >> (8 * (w - 1 - j))) & 0xff for j in range(w)]
            I.check(seq_eq(wr.bytes, want), "list-encoding")
            p = Parser(newbuf(list(wr.bytes)))
            back = p.getVarList(w, ll)
            I.check(len(back) == k and bool(AND([a == b for a, b in
                                                 zip(back, vals)])),
                    "getVarList-inverts-addVarSeq")
        return
    if op == "addVarTupleSeq":
        a, b, c, d = [I.byte("t") for _ in range(4)]
        wr = Writer()
        wr.addVarTupleSeq([(a, b), (c, d)], 1, 2)
        I.check(seq_eq(wr.bytes, [0, 4, a, b, c, d]), "tuple-list-encoding")
        p = Parser(newbuf(list(wr.bytes)))
        back = p.getVarTupleList(1, 2, 2)
        I.check(len(back) == 2 and bool(AND(back[0][0] == a, back[0][1] == b,
                                            back[1][0] == c, back[1][1] == d)),
                "getVarTupleList-inverts")
        wr2 = Writer()
        try:
            wr2.addVarTupleSeq([(a, b), (c,)], 1, 2)
            I.fail("tuples-of-different-length-accepted")
        except ValueError:
            I.cover("ragged tuples rejected")
        return
    if op == "postWrite":
        # the 3-byte handshake length is written by the overflow-checked add
        class W(object):
            pass

        class Big(object):
            """stands for a body of symbolic length"""
            def __init__(self, n):
                self.n = n

            def __len__(self):
                raise AssertionError("len() of symbolic-size body")
        n = I.uint(26, "bodylen")
        hm = M.HandshakeMsg(HandshakeType_finished)
        w = Writer()
        hdr = Writer()
        try:
            hdr.add(hm.handshakeType, 1)
            hdr.add(n, 3)
            ok = True
        except ValueError:
            ok = False
        I.check(IFF(ok, n < (1 << 24)),
                "handshake-length-that-does-not-fit-raises")
        # and postWrite uses exactly these primitives (source check)
        import inspect
        src = inspect.getsource(M.HandshakeMsg.postWrite)
        I.check("headerWriter.add(self.handshakeType, 1)" in src and
                "headerWriter.add(len(w.bytes), 3)" in src,
                "postWrite-uses-the-overflow-checked-add")
        return
    n = shape["n"]
    data = I.bytes(n, "buf")
    p = Parser(newbuf(list(data)))
    if op == "getVarList":
        try:
            out = p.getVarList(2, 1)
        except DecodeError:
            I.cover("rejected")
            return
        I.check(n >= 1 and bool(AND(data[0] == 2 * len(out),
                                    p.index == 1 + 2 * len(out),
                                    p.index <= n)),
                "getVarList-consumes-exactly-declared-length")
        I.check(AND([out[i] == (data[1 + 2 * i] << 8) + data[2 + 2 * i]
                     for i in range(len(out))]), "getVarList-values")
        return
    if op == "getVarTupleList":
        try:
            out = p.getVarTupleList(1, 2, 1)
        except DecodeError:
            I.cover("rejected")
            return
        I.check(n >= 1 and bool(AND(data[0] == 2 * len(out),
                                    p.index == 1 + 2 * len(out))),
                "getVarTupleList-consumes-exactly-declared-length")
        return
    if op == "lengthcheck":
        try:
            p.startLengthCheck(1)
            consumed = 0
            while not p.atLengthCheck():
                p.get(1)
                consumed += 1
            p.stopLengthCheck()
        except DecodeError:
            I.cover("rejected")
            return
        I.check(n >= 1 and bool(AND(data[0] == consumed,
                                    p.index == 1 + consumed)),
                "length-check-brackets-exactly-the-declared-bytes")


@obligation("C15.6", lambda tier: [dict(escape=e, padded=p)
                                   for e in (False, True)
                                   for p in (False, True)],
            functions=["tlslite.messages:RecordHeader2.create",
                       "tlslite.messages:RecordHeader2.write",
                       "tlslite.messages:RecordHeader2.parse"],
            assumes=CODEC_ASSUMES + [
                "SSLv2 record header: length symbolic in 0..65535, padding "
                "symbolic in 1..255 when the shape is padded else 0, "
                "securityEscape per shape"],
            patches=lambda s: (codec_proxies(), []))
def c15_6(I, shape):
    """RecordHeader2 round-trips every length its 2- or 3-byte form can carry
    (15 bits short, 14 bits long) and refuses to encode any other"""
    length = I.int_range(0, 65535, "length")
    padding = I.int_range(1, 255, "padding") if shape["padded"] else 0
    esc = shape["escape"]
    short = not (shape["padded"] or esc)
    fits = (length < 0x8000) if short else (length < 0x4000)
    h = M.RecordHeader2().create(length, padding, esc)
    try:
        data = h.write()
    except ValueError:
        I.check(NOT(fits), "encodable-length-not-refused")
        return
    I.check(fits, "overlong-length-refused-not-truncated")
    I.check(len(data) == (2 if short else 3), "header-size")
    back = M.RecordHeader2().parse(Parser(newbuf(list(data))))
    I.check(AND(back.length == length, back.padding == padding),
            "header-write-parse-identity")
    I.check(bool(back.securityEscape) == bool(esc), "security-escape-kept")
