"""Hash / HMAC as uninterpreted functions behind the hashlib / hmac interfaces.

HASH_<alg>(data)            - unkeyed hash of the whole input
HMAC_<alg>_k<len(key)>(key || msg)
Both are one z3 function per total input length (symx.uf).  Digest sizes and
block sizes are the real ones.
"""
from symx.core import SymBytes, is_concrete_mode, Unsupported
from symx.uf import apply_uf

SIZES = {"md5": (16, 64), "sha1": (20, 64), "sha224": (28, 64),
         "sha256": (32, 64), "sha384": (48, 128), "sha512": (64, 128)}


def _buf(items=()):
    return bytearray(items) if is_concrete_mode() else SymBytes(items)


def hash_bytes(alg, data):
    return apply_uf("HASH_" + alg, list(data), SIZES[alg][0])


def hmac_bytes(alg, key, msg):
    key = list(key)
    return apply_uf("HMAC_%s_k%d" % (alg, len(key)), key + list(msg),
                    SIZES[alg][0])


class ModelHash(object):
    def __init__(self, alg, data=b""):
        self.name = alg
        self.digest_size, self.block_size = SIZES[alg]
        self.buf = list(data)

    def update(self, d):
        self.buf += list(d)

    def copy(self):
        return ModelHash(self.name, self.buf)

    def digest(self):
        return hash_bytes(self.name, self.buf)


def _algname(digestmod):
    if isinstance(digestmod, str):
        return digestmod.lower()
    if isinstance(digestmod, _Ctor):
        return digestmod.alg
    if isinstance(digestmod, ModelHash):
        return digestmod.name
    n = getattr(digestmod, "__name__", "")
    if n.startswith("openssl_"):
        return n[len("openssl_"):]
    raise Unsupported("digestmod %r" % (digestmod,))


class ModelHMAC(object):
    def __init__(self, key, msg=None, digestmod=None):
        if digestmod is None:
            raise TypeError("Missing required argument 'digestmod'.")
        self.alg = _algname(digestmod)
        self.digest_size, self.block_size = SIZES[self.alg]
        self.key = list(key)
        self.buf = list(msg) if msg else []
        self.name = "hmac-" + self.alg

    def update(self, d):
        self.buf += list(d)

    def copy(self):
        m = ModelHMAC(self.key, None, self.alg)
        m.buf = list(self.buf)
        return m

    def digest(self):
        return hmac_bytes(self.alg, self.key, self.buf)


class _Ctor(object):
    """callable standing for hashlib.<alg>"""

    def __init__(self, alg):
        self.alg = alg
        self.__name__ = "openssl_" + alg

    def __call__(self, data=b""):
        return ModelHash(self.alg, data)


class HashlibModel(object):
    """stands for the module tlslite.utils.tlshashlib / hashlib"""

    def __init__(self):
        for a in SIZES:
            setattr(self, a, _Ctor(a))

    def new(self, alg, data=b""):
        return ModelHash(_algname(alg), data)


class HmacModel(object):
    """stands for the module tlslite.utils.tlshmac / hmac"""
    HMAC = ModelHMAC

    @staticmethod
    def new(key, msg=None, digestmod=None):
        return ModelHMAC(key, msg, digestmod)

    @staticmethod
    def compare_digest(a, b):
        from models.fixtures import py_compare_digest
        return py_compare_digest(a, b)


HASHLIB = HashlibModel()
HMACMOD = HmacModel()

HASH_ASSUMES = [
    "hash functions and HMAC = uninterpreted functions of their whole input "
    "(one per algorithm, key length and input length) behind the hashlib/hmac "
    "interfaces; SHA/MD5 themselves are the C library, outside the claim",
]
