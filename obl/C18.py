"""C18 - shared objects stay correct under every thread interleaving.

Sequential refinement (solver-decided) + lock discipline on every explored path
(all accesses to shared state happen while the object's mutex is held, the
mutex is released on every exit).  With a real mutex, discipline makes every
interleaving equivalent to a sequential history, so the refinement transfers.
"""
import threading

from lib.framework import obligation
from symx.core import (SymInt, SymBool, AND, OR, NOT, IFF, IMPLIES, assume,
                       is_concrete_mode, ite, PathAbort, Unsupported)

import tlslite.sessioncache as sc_mod
from tlslite.sessioncache import SessionCache
import tlslite.basedb as basedb_mod
import tlslite.verifierdb as vdb_mod
import tlslite.utils.python_rsakey as prsa
from tlslite.utils.python_rsakey import Python_RSAKey


class Discipline(Exception):
    pass


class RecLock(object):
    """stands for threading.Lock; records discipline violations"""

    def __init__(self):
        self.held = False
        self.errors = []
        self.acquisitions = 0

    def acquire(self, *a):
        if self.held:
            self.errors.append("lock acquired while already held (deadlock)")
        self.held = True
        self.acquisitions += 1
        return True

    def release(self):
        if not self.held:
            self.errors.append("release of a lock that is not held")
        self.held = False

    def __enter__(self):
        self.acquire()
        return self

    def __exit__(self, *a):
        self.release()
        return False


class Sess(object):
    def __init__(self, tag, valid):
        self.tag = tag
        self._valid = valid

    def valid(self):
        return self._valid


SHARED_CACHE = ("entriesDict", "entriesList", "entriesCount", "firstIndex",
                "lastIndex")


def make_spy_cache(maxEntries, maxAge, lock):
    class SpyCache(SessionCache):
        _armed = False

        def __getattribute__(self, name):
            if name in SHARED_CACHE and \
                    object.__getattribute__(self, "_armed") and \
                    not lock.held:
                lock.errors.append("read of %s without the lock" % name)
            return object.__getattribute__(self, name)

        def __setattr__(self, name, value):
            if name in SHARED_CACHE and \
                    object.__getattribute__(self, "_armed") and \
                    not lock.held:
                lock.errors.append("write of %s without the lock" % name)
            object.__setattr__(self, name, value)
    c = SpyCache(maxEntries, maxAge)
    object.__setattr__(c, "lock", lock)
    object.__setattr__(c, "_armed", True)
    return c


class RefCache(object):
    """the sequential specification, in plain terms"""

    def __init__(self, maxEntries, maxAge):
        self.items = []        # (id, time, session) in store order
        self.cap = maxEntries
        self.maxAge = maxAge

    def set(self, sid, sess, now):
        self.items.append((sid, now, sess))
        if len(self.items) == self.cap:
            self.items.pop(0)

    def get(self, sid, now):
        """returns (found?, session): found is bool/SymBool"""
        # an entry is live if it is younger than the age limit; times are
        # non-decreasing so expired entries form a prefix
        best = None
        for (i, t, s) in self.items:
            if i == sid:
                best = (t, s)
        # purge what has expired (observable through later evictions)
        keep = []
        for (i, t, s) in self.items:
            keep.append((i, t, s, now - t > self.maxAge))
        # materialise the purge: expired prefix is dropped
        self.items = [(i, t, s) for (i, t, s, exp) in keep
                      if not _truth(exp)]
        if best is None:
            return False, None
        t, s = best
        return AND(NOT(now - t > self.maxAge), s.valid()), s


def _truth(x):
    # forks in symbolic mode: the reference follows the same case split as
    # the implementation's comparison, which keeps its state concrete
    return bool(x)


def _shapes_c18_1(tier):
    out = []
    nops = (3, 4) if tier == "quick" else (3, 4, 5)
    for n in nops:
        for cap in ((2, 3) if tier == "quick" else (2, 3, 4)):
            out.append(dict(ops=n, cap=cap, ids=2 if n > 3 else 3))
    return out


@obligation("C18.1", _shapes_c18_1,
            functions=["tlslite.sessioncache:SessionCache.__getitem__",
                       "tlslite.sessioncache:SessionCache.__setitem__",
                       "tlslite.sessioncache:SessionCache._purge",
                       "tlslite.sessioncache:SessionCache._remove"],
            assumes=["history = n operations, each get or set (symbolic "
                     "selector, concretised) on one of 2-3 IDs (symbolic "
                     "selector; the same ID may be stored repeatedly); clock "
                     "= symbolic non-decreasing integers; maxAge symbolic; "
                     "session validity flags symbolic",
                     "threading.Lock replaced by a recording lock; shared "
                     "attributes behind access hooks"],
            max_paths=60000, timeout=(400, 1500), also=("C13",))
def c18_1(I, shape):
    """SessionCache refines the sequential specification on every history,
    never exceeds its size bound, raises only KeyError, and keeps the lock
    discipline"""
    cap = shape["cap"]
    maxAge = I.int_range(0, 7, "maxAge")
    lock = RecLock()
    clock = [0]

    def now():
        return clock[0]
    old_time = sc_mod.time.time
    cache = make_spy_cache(cap, maxAge, lock)
    ref = RefCache(cap, maxAge)
    ids = [bytes([65 + k]) for k in range(shape["ids"])]

    class T(object):
        @staticmethod
        def time():
            return clock[0]
    old = sc_mod.time
    sc_mod.time = T
    try:
        for step in range(shape["ops"]):
            dt = I.int_range(0, 9, "dt")
            clock[0] = clock[0] + dt
            kind = I.pick(["set", "get"], "op")
            sid = I.pick(ids, "id")
            if kind == "set":
                s = Sess(step, I.bool("valid"))
                try:
                    cache[sid] = s
                except Exception as e:
                    I.fail("__setitem__ raised %s" % type(e).__name__)
                    return
                ref.set(sid, s, clock[0])
            else:
                try:
                    got = cache[sid]
                    found = True
                except KeyError:
                    got, found = None, False
                except Exception as e:
                    I.fail("__getitem__ raised %s" % type(e).__name__)
                    return
                want_found, want = ref.get(sid, clock[0])
                I.check(IFF(found, want_found),
                        "lookup-succeeds-iff-live-valid-and-not-evicted")
                if found:
                    I.check(got is want, "returns-the-session-last-stored")
            I.check(len(object.__getattribute__(cache, "entriesDict")) < cap
                    or cap == 1, "size-bound")
            I.check(not lock.held, "lock-released-after-every-operation")
        I.check(lock.errors == [], "lock-discipline",
                detail=lambda: lock.errors[:3])
    finally:
        sc_mod.time = old


# ---------------------------------------------------------------------------
# C18.2  BaseDB / VerifierDB (in-memory back end): discipline + refinement
# ---------------------------------------------------------------------------

class SpyDict(dict):
    lock = None

    def _chk(self, what):
        if self.lock is not None and not self.lock.held:
            self.lock.errors.append("%s of db without the lock" % what)

    def __getitem__(self, k):
        self._chk("read")
        return dict.__getitem__(self, k)

    def __setitem__(self, k, v):
        self._chk("write")
        dict.__setitem__(self, k, v)

    def __delitem__(self, k):
        self._chk("delete")
        dict.__delitem__(self, k)

    def __contains__(self, k):
        self._chk("membership test")
        return dict.__contains__(self, k)

    def keys(self):
        self._chk("keys()")
        outer = self

        class View(object):
            """live view: iterating it is an access to the store"""
            def __iter__(self):
                outer._chk("iteration over keys()")
                return iter(list(dict.keys(outer)))

            def __len__(self):
                outer._chk("len(keys())")
                return dict.__len__(outer)
        return View()

    def sync(self):
        # on-disk back ends flush here; it iterates the store
        self._chk("sync()")
        self.syncs = getattr(self, "syncs", 0) + 1


def _shapes_c18_2(tier):
    return [dict(ops=n) for n in ((3,) if tier == "quick" else (3, 4))]


@obligation("C18.2", _shapes_c18_2,
            functions=["tlslite.basedb:BaseDB.__getitem__",
                       "tlslite.basedb:BaseDB.__setitem__",
                       "tlslite.basedb:BaseDB.__delitem__",
                       "tlslite.basedb:BaseDB.__contains__",
                       "tlslite.basedb:BaseDB.keys",
                       "tlslite.verifierdb:VerifierDB._getItem",
                       "tlslite.verifierdb:VerifierDB._setItem"],
            assumes=["store = dict behind access hooks that also offers sync() "
                     "and is flagged as on-disk (filename set), so the flush "
                     "path of writers is exercised; real dbm files are I/O and "
                     "outside the claim",
                     "history of n operations over {set, get, del, contains, "
                     "keys} on 2 user names (symbolic selectors), verifier "
                     "entries concrete"],
            max_paths=60000)
def c18_2(I, shape):
    """VerifierDB refines a dict, raises only KeyError, and touches its
    store only under the lock"""
    lock = RecLock()
    db = vdb_mod.VerifierDB()
    db.create()
    spy = SpyDict(db.db)
    spy.lock = lock
    db.db = spy
    db.lock = lock
    # behave like an on-disk database: writers must flush (under the lock)
    db.filename = "spy-backend"
    ref = {}
    users = ["alice", "bob"]
    entries = [(2 ** 1024 + 7, 2, bytearray(b"salt0123"), 123456789),
               (2 ** 1024 + 9, 5, bytearray(b"pepper99"), 987654321)]
    for step in range(shape["ops"]):
        kind = I.pick(["set", "get", "del", "in", "keys"], "op")
        u = I.pick(users, "user")
        if kind == "set":
            e = entries[step % 2]
            try:
                db[u] = e
            except Exception as ex:
                I.fail("__setitem__ raised %s" % type(ex).__name__)
                return
            ref[u] = e
        elif kind == "get":
            try:
                got = db[u]
                found = True
            except KeyError:
                found = False
            except Exception as ex:
                I.fail("__getitem__ raised %s" % type(ex).__name__)
                return
            I.check(found == (u in ref), "get-succeeds-iff-present")
            if found:
                N, g, salt, v = got
                I.check((N, g, bytes(salt), v) == (ref[u][0], ref[u][1],
                                                   bytes(ref[u][2]),
                                                   ref[u][3]),
                        "get-returns-last-stored")
        elif kind == "del":
            try:
                del db[u]
                found = True
            except KeyError:
                found = False
            I.check(found == (u in ref), "del-succeeds-iff-present")
            ref.pop(u, None)
        elif kind == "in":
            I.check((u in db) == (u in ref), "contains")
        else:
            I.check(sorted(db.keys()) == sorted(ref), "keys")
        I.check(not lock.held, "lock-released-after-every-operation")
    I.check(lock.errors == [], "lock-discipline",
            detail=lambda: lock.errors[:3])


# ---------------------------------------------------------------------------
# C18.3  RSA blinding: algebra under the invariant + lock discipline
# ---------------------------------------------------------------------------

TOY_KEYS = [(47, 59, 17), (61, 53, 17), (43, 59, 5), (11, 17, 3), (53, 71, 3)]


def _inv(a, n):
    return pow(a, -1, n)


def _shapes_c18_3(tier):
    out = []
    for ki in (range(3) if tier == "quick" else range(len(TOY_KEYS))):
        for ui in ((0, 1) if tier == "quick" else (0, 1, 2, 3)):
            out.append(dict(key=ki, u=ui))
        out.append(dict(key=ki, u=None))
    return out


@obligation("C18.3", _shapes_c18_3,
            functions=["tlslite.utils.python_rsakey:Python_RSAKey."
                       "_rawPrivateKeyOp",
                       "tlslite.utils.python_rsakey:Python_RSAKey."
                       "_rawPrivateKeyOpHelper"],
            assumes=["toy RSA keys (n <= 12 bits); message symbolic over all "
                     "residues; the blinding pair on entry is any of several "
                     "pairs satisfying blinder * unblinder^e = 1 (mod n) - "
                     "what another thread's complete critical section leaves "
                     "behind - or unset (first use, getRandomNumber -> "
                     "selected unit)",
                     "threading.Lock replaced by a recording lock; blinder / "
                     "unblinder behind access hooks: every access outside "
                     "the lock is a discipline violation (another thread "
                     "could interleave there)"],
            timeout=(300, 1200))
def c18_3(I, shape):
    """private-key operation returns m^d mod n from any invariant blinding
    state, leaves an invariant state at lock release, and touches the pair
    only under the lock"""
    p, q, e = TOY_KEYS[shape["key"]]
    n = p * q
    lam = (p - 1) * (q - 1)
    d = _inv(e, lam)
    units = [u for u in range(2, n) if u % p and u % q]
    lock = RecLock()
    log = []

    class SpyKey(Python_RSAKey):
        _armed = False

        def __getattribute__(self, name):
            if name in ("blinder", "unblinder") and \
                    object.__getattribute__(self, "_armed"):
                if not lock.held:
                    lock.errors.append("read of %s without the lock" % name)
            return object.__getattribute__(self, name)

        def __setattr__(self, name, value):
            if name in ("blinder", "unblinder") and \
                    object.__getattribute__(self, "_armed"):
                if not lock.held:
                    lock.errors.append("write of %s without the lock" % name)
            object.__setattr__(self, name, value)
    key = SpyKey(n, e, d, p, q)
    object.__setattr__(key, "_lock", lock)
    if shape["u"] is None:
        pick = units[len(units) // 3]
        old = prsa.getRandomNumber
        prsa.getRandomNumber = lambda lo, hi: pick
    else:
        u = units[(shape["u"] * 7919 + 13) % len(units)]
        b = pow(_inv(u, n), e, n)
        object.__setattr__(key, "unblinder", u)
        object.__setattr__(key, "blinder", b)
        old = None
    object.__setattr__(key, "_armed", True)
    m = I.int_range(0, n - 1, "m")
    try:
        try:
            c = key._rawPrivateKeyOp(m)
        except Exception as ex:
            I.fail("_rawPrivateKeyOp raised %s" % type(ex).__name__)
            return
    finally:
        if old is not None:
            prsa.getRandomNumber = old
    want = pow(m, d, n)
    I.check(c == want, "result-is-m^d-mod-n")
    nb = object.__getattribute__(key, "blinder")
    nu = object.__getattribute__(key, "unblinder")
    I.check(AND((nb * pow(nu, e, n)) % n == 1, nb != 0),
            "blinding-invariant-at-release")
    I.check(not lock.held, "lock-released")
    I.check(lock.errors == [], "lock-discipline",
            detail=lambda: lock.errors[:3])
