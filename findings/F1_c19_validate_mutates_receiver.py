"""F1 (C19): HandshakeSettings.validate() modified the object it validates:
cipherImplementations lost the back ends that are not installed (the list is
aliased into the copy and filtered in place).  Exit 1 if present."""
import sys
sys.path.insert(0, "/repo")
from tlslite.handshakesettings import HandshakeSettings
s = HandshakeSettings()
before = list(s.cipherImplementations)
s.validate()
print("before:", before, "after:", s.cipherImplementations)
sys.exit(0 if before == s.cipherImplementations else 1)
