"""C05 - peer credentials are recorded only after proof of possession.
(C13.5 - ticket/PSK selection - and C10.6 - own signatures - also run under
this property.)"""
import ast

from lib.framework import obligation
from symx.core import (SymInt, SymBool, SymBytes, AND, OR, NOT, IFF, IMPLIES,
                       seq_eq, assume, is_concrete_mode, ite, PathAbort,
                       Unsupported)
from symx.shims import sym_powmod
from models.fixtures import newbuf
from models.hello import RSA_CHAIN, EC_CHAIN

import tlslite.keyexchange as kx
import tlslite.tlsconnection as tc
import tlslite.tlsrecordlayer as trl
import tlslite.messages as M
from tlslite.checker import Checker
from tlslite.handshakesettings import HandshakeSettings
from tlslite.constants import (CipherSuite, SignatureScheme, HashAlgorithm,
                               SignatureAlgorithm, GroupName)
from tlslite.errors import (TLSIllegalParameterException,
                            TLSDecryptionFailed, TLSInternalError,
                            TLSFingerprintError, TLSAuthenticationTypeError,
                            TLSNoAuthenticationError, TLSAuthenticationError)


class PubKey(object):
    """public key whose verify() is a symbolic predicate V and which records
    what it was asked to verify"""

    def __init__(self, I, key_type):
        self.key_type = key_type
        self.verdict = I.bool("V")
        self.calls = []

        class _Curve(object):
            baselen = 32

        class _K(object):
            curve = _Curve()
        if key_type in ("ecdsa",):
            self.public_key = _K()

    def __len__(self):
        return 2048

    def verify(self, sig, data, padding=None, hashAlg=None, saltLen=None):
        self.calls.append(("verify", list(sig), list(data), padding, hashAlg,
                           saltLen))
        return self.verdict

    def hashAndVerify(self, sig, data, rsaScheme=None, hAlg=None, sLen=None):
        self.calls.append(("hashAndVerify", list(sig), list(data), rsaScheme,
                           hAlg, sLen))
        return self.verdict


def _shapes_c05_1(tier):
    out = []
    for version in ((3, 1), (3, 3)):
        for kt in ("rsa", "ecdsa"):
            out.append(dict(version=list(version), key=kt))
    return out


@obligation("C05.1", _shapes_c05_1,
            functions=["tlslite.keyexchange:KeyExchange."
                       "verifyServerKeyExchange",
                       "tlslite.keyexchange:KeyExchange._tls12_verify_SKE",
                       "tlslite.keyexchange:KeyExchange."
                       "_tls12_verify_ecdsa_SKE",
                       "tlslite.tlsconnection:TLSConnection._sigHashesToList",
                       "tlslite.messages:ServerKeyExchange.hash"],
            assumes=["the server's public key is a stub whose verify() is a "
                     "symbolic predicate V and records its arguments; the "
                     "ServerKeyExchange carries a symbolic (hash, signature) "
                     "algorithm pair and symbolic signature bytes; the list "
                     "of acceptable schemes is what the client computes from "
                     "default settings for the certificate type "
                     "(_sigHashesToList)"],
            max_paths=20000)
def c05_1(I, shape):
    """the ServerKeyExchange signature is accepted only with a scheme the
    client offered for that key type, checked over exactly the hash of
    client_random || server_random || params, and only if V holds"""
    version = tuple(shape["version"])
    kt = shape["key"]
    chain = RSA_CHAIN if kt == "rsa" else EC_CHAIN
    suite = CipherSuite.TLS_ECDHE_RSA_WITH_AES_128_CBC_SHA if kt == "rsa" \
        else CipherSuite.TLS_ECDHE_ECDSA_WITH_AES_128_CBC_SHA
    settings = HandshakeSettings().validate()
    valid = tc.TLSConnection._sigHashesToList(settings, certList=chain)
    key = PubKey(I, kt)
    ske = M.ServerKeyExchange(suite, version)
    ske.createECDH(3, GroupName.secp256r1, bytearray(b"\x04" + b"\x03" * 64))
    ha = I.byte("hashAlg")
    sa = I.byte("signAlg")
    ske.hashAlg, ske.signAlg = ha, sa
    slen = I.pick([0, 4], "siglen")
    sig = I.bytes(slen, "sig")
    ske.signature = newbuf(list(sig))
    if slen == 0:
        # contract of every key class: an empty / undecodable signature
        # does not verify (ECDSA/DSA wrappers: DER decoding fails -> False)
        assume(NOT(key.verdict))
    cr, sr = bytearray(b"c" * 32), bytearray(b"s" * 32)
    try:
        kx.KeyExchange.verifyServerKeyExchange(ske, key, cr, sr, valid)
        ok = True
    except (TLSIllegalParameterException, TLSDecryptionFailed):
        ok = False
    except (PathAbort, Unsupported):
        raise
    except Exception as e:
        I.fail("verifyServerKeyExchange raised %s" % type(e).__name__,
               detail=repr(e))
        return
    if not ok:
        I.cover("rejected")
        return
    I.check(key.verdict, "accepted-only-if-the-signature-verifies")
    I.check(slen > 0, "empty-signature-never-accepted")
    I.check(len(key.calls) == 1 and bool(seq_eq(key.calls[0][1], sig)),
            "verified-the-signature-from-the-message")
    if version >= (3, 3):
        h, s_ = int(ha), int(sa)
        I.check((h, s_) in valid, "scheme-was-offered-for-this-key-type",
                detail=lambda: dict(scheme=(h, s_)))
        want_sig = SignatureAlgorithm.rsa if kt == "rsa" else \
            SignatureAlgorithm.ecdsa
        name = SignatureScheme.toRepr((h, s_))
        if kt == "rsa":
            I.check(s_ == SignatureAlgorithm.rsa or
                    (name or "").startswith("rsa_pss"),
                    "scheme-matches-the-key-type")
        else:
            I.check(s_ == want_sig, "scheme-matches-the-key-type")
        # the bytes that were verified are the hash of the right input
        data = bytes(key.calls[0][2])
        expect = ske.hash(cr, sr)
        if kt == "ecdsa":
            expect = expect[:32]
        I.check(data == bytes(expect),
                "verified-over-hash-of-randoms-and-params")
    else:
        expect = ske.hash(cr, sr)
        I.check(bytes(key.calls[0][2]) == bytes(expect),
                "verified-over-hash-of-randoms-and-params")


# ---------------------------------------------------------------------------
# C05.6  Checker
# ---------------------------------------------------------------------------

@obligation("C05.6", lambda tier: [dict(role=r) for r in ("client", "server")],
            functions=["tlslite.checker:Checker.__call__"],
            assumes=["the peer chain's fingerprint and the expected one are "
                     "chosen by symbolic selectors; resumed flag and "
                     "checkResumedSession symbolic"])
def c05_6(I, shape):
    """the Checker passes iff the end-entity fingerprint equals the expected
    one (or the session is resumed and re-checking is off)"""
    from tlslite.x509certchain import X509CertChain
    fps = ["aa" * 20, "bb" * 20]
    have = I.pick(fps + [None, "not-a-chain"], "peer")
    want = I.pick(fps, "expected")
    resumed = I.pick([False, True], "resumed")
    recheck = I.pick([False, True], "checkResumedSession")

    class Chain(X509CertChain):
        def __init__(self, fp):
            self.fp = fp
            self.x509List = [object()]

        def getFingerprint(self):
            return self.fp

    class Sess(object):
        pass

    class Conn(object):
        pass
    conn = Conn()
    conn.resumed = resumed
    conn._client = shape["role"] == "client"
    conn.session = Sess()
    chain = None if have is None else \
        ("junk" if have == "not-a-chain" else Chain(have))
    conn.session.serverCertChain = chain if conn._client else None
    conn.session.clientCertChain = None if conn._client else chain
    try:
        Checker(x509Fingerprint=want, checkResumedSession=recheck)(conn)
        ok = True
    except TLSAuthenticationError:
        ok = False
    I.check(ok == ((resumed and not recheck) or have == want),
            "checker-passes-iff-fingerprint-matches")


# ---------------------------------------------------------------------------
# C05.7  SRP: the server refuses A = 0 (mod N)
# ---------------------------------------------------------------------------

@obligation("C05.7", lambda tier: [dict()],
            functions=["tlslite.keyexchange:SRPKeyExchange."
                       "processClientKeyExchange",
                       "tlslite.keyexchange:SRPKeyExchange."
                       "processServerKeyExchange"],
            assumes=["toy SRP modulus N = 23; the client's public value A "
                     "(and the server's B on the client side) is symbolic over "
                     "0..4N; exponentiation and hashing (makeU) are stubbed "
                     "out: the obligation is the range check alone"],
            patches=lambda s: ([(kx, "powMod", sym_powmod)],
                               [(kx, "makeU", lambda N, A, B: 3)]))
def c05_7(I, shape):
    """SRP: a public value that is 0 modulo N - which would fix the
    premaster secret independently of the password - is always refused"""
    N = 23
    A = I.int_range(0, 4 * N, "A")

    class CKE(object):
        srp_A = A
    ke = kx.SRPKeyExchange.__new__(kx.SRPKeyExchange)
    ke.N, ke.v, ke.b, ke.B = N, 5, 7, 9
    try:
        ke.processClientKeyExchange(CKE())
        ok = True
    except TLSIllegalParameterException:
        ok = False
    except ZeroDivisionError:
        I.fail("SRP A value caused ZeroDivisionError")
        return
    I.check(IFF(ok, A % N != 0), "srp-A-zero-mod-N-refused")


# ---------------------------------------------------------------------------
# C05.8  every error path that is meant to abort actually runs
# ---------------------------------------------------------------------------

@obligation("C05.8", lambda tier: [dict(mod=m) for m in
                                   ("tlsconnection", "tlsrecordlayer")],
            functions=["tlslite.tlsconnection:TLSConnection",
                       "tlslite.tlsrecordlayer:TLSRecordLayer"],
            assumes=["AST of the current source: _sendError and the other "
                     "generator methods of the connection do nothing unless "
                     "iterated; a call whose value is discarded (expression "
                     "statement) is an error path that silently does not "
                     "abort - e.g. after a failed verification of the own "
                     "signature or of the peer's proof"],
            also=("C10", "C08"))
def c05_8(I, shape):
    """no generator method of the connection classes is called as a bare
    statement (its alert / abort would never happen)"""
    import inspect
    mod = tc if shape["mod"] == "tlsconnection" else trl
    cls = tc.TLSConnection if shape["mod"] == "tlsconnection" \
        else trl.TLSRecordLayer
    tree = ast.parse(open(mod.__file__).read())
    gens = set()
    for klass in (tc.TLSConnection, trl.TLSRecordLayer):
        for name, fn in vars(klass).items():
            if inspect.isgeneratorfunction(fn):
                gens.add(name)
    bad = []
    for n in ast.walk(tree):
        if isinstance(n, ast.Expr) and isinstance(n.value, ast.Call) and \
                isinstance(n.value.func, ast.Attribute) and \
                n.value.func.attr in gens and \
                isinstance(n.value.func.value, ast.Name) and \
                n.value.func.value.id == "self":
            bad.append("%s:%d %s" % (shape["mod"], n.lineno,
                                     n.value.func.attr))
    I.check(bad == [], "no-discarded-generator-call",
            detail=lambda: bad)
    I.check("_sendError" in gens and len(gens) > 10, "generator-set-found")


# ---------------------------------------------------------------------------
# C05.2  a peer that cannot produce the signature never gets its chain
#        recorded (live pair, corrupt signing oracle)
# ---------------------------------------------------------------------------
from models import pair as P
from models.hello import RSA_KEY, EC_KEY

PAIR_RND5 = P.RandomSource(None, concrete=True)
MODES = ("arbitrary", "bitflip", "other-key", "other-transcript", "empty",
         "short", "long")


def _pair_patches5(shape):
    P.ModelKEX.rnd = PAIR_RND5
    return (P.pair_proxies(), P.pair12_stubs(PAIR_RND5))


def _shapes_c05_2(tier):
    out = []
    scens = ["tls13", "tls12-ecdhe", "tls12-dhe", "tls10-ecdhe",
             "tls12-ecdsa"]
    if tier != "quick":
        scens += ["tls13-aes256", "tls13-chacha", "tls11-ecdhe",
                  "tls12-ecdhe-cbc", "tls12-rsa"]
    for scen in scens:
        for liar in ("server", "client"):
            if scen == "tls12-rsa" and liar == "server":
                continue    # RSA key transport: the server signs nothing
            for mode in MODES:
                out.append(dict(scenario=scen, liar=liar, mode=mode))
    return out


def _settings5(scen):
    if scen == "tls13":
        return P.settings13()
    if scen == "tls12-ecdhe":
        return P.settings12((3, 3), "ecdhe_rsa", "aes128gcm")
    if scen == "tls12-dhe":
        return P.settings12((3, 3), "dhe_rsa", "aes128gcm")
    if scen == "tls10-ecdhe":
        return P.settings12((3, 1), "ecdhe_rsa", "aes128", "sha")
    if scen == "tls12-ecdsa":
        return P.settings12((3, 3), "ecdhe_ecdsa", "aes128gcm")
    if scen == "tls13-aes256":
        return P.settings13("aes256gcm")
    if scen == "tls13-chacha":
        return P.settings13("chacha20-poly1305")
    if scen == "tls11-ecdhe":
        return P.settings12((3, 2), "ecdhe_rsa", "aes128", "sha")
    if scen == "tls12-ecdhe-cbc":
        return P.settings12((3, 3), "ecdhe_rsa", "aes256", "sha384")
    if scen == "tls12-rsa":
        return P.settings12((3, 3), "rsa", "aes128gcm")
    raise ValueError(scen)


@obligation("C05.2", _shapes_c05_2,
            functions=["tlslite.tlsconnection:TLSConnection."
                       "_clientTLS13Handshake",
                       "tlslite.tlsconnection:TLSConnection."
                       "_serverTLS13Handshake",
                       "tlslite.tlsconnection:TLSConnection."
                       "_clientKeyExchange",
                       "tlslite.tlsconnection:TLSConnection."
                       "_serverCertKeyExchange",
                       "tlslite.keyexchange:KeyExchange."
                       "verifyServerKeyExchange",
                       "tlslite.keyexchange:KeyExchange.calcVerifyBytes",
                       "tlslite.keyexchange:KeyExchange."
                       "makeCertificateVerify"],
            assumes=P.PAIR_ASSUMES + [
                "the dishonest side runs the real handshake code with a "
                "signing oracle that does not hold the certificate's key: "
                "its output is an arbitrary string different from the "
                "genuine signature, a bit flip of it, a signature by "
                "another key, a signature over another transcript, empty, "
                "one byte short or one byte long; its self-check is "
                "disabled",
                "unforgeability: verify() under key k holds only for data "
                "signed by the holder of k; signatures of different keys / "
                "data do not collide; fixed randoms"],
            patches=_pair_patches5, max_paths=400, timeout=(600, 1800),
            also=("C04",))
def c05_2(I, shape):
    """when the peer's CertificateVerify / ServerKeyExchange signature is not
    a valid signature by the presented end-entity key over this handshake,
    the verifying side never completes and records no peer chain"""
    scen, liar, mode = shape["scenario"], shape["liar"], shape["mode"]
    cset, sset = _settings5(scen), _settings5(scen)
    srv_cred = "ecdsa" if scen == "tls12-ecdsa" else "rsa"
    cli_cred = "rsa" if scen == "tls12-ecdsa" else "ecdsa"
    real = {"rsa": RSA_KEY, "ecdsa": EC_KEY}
    kw = dict(server_cred=srv_cred, client_cred=cli_cred, req_cert=True,
              intctxt=True, euf=True)
    if liar == "server":
        other = P.ModelKey(real[cli_cred], "cli")
        kw["skey"] = P.CorruptKey(real[srv_cred], "srv", mode, I, other)
    else:
        other = P.ModelKey(real[srv_cred], "srv")
        kw["ckey"] = P.CorruptKey(real[cli_cred], "cli", mode, I, other)
    sc = P.Scenario(I, PAIR_RND5, cset, sset, **kw)
    sc.run()
    P.distinct_keys_assumption()
    victim_ep = sc.cep if liar == "server" else sc.sep
    victim = victim_ep.conn
    corrupt = kw.get("skey") or kw.get("ckey")
    if len(corrupt.signed) == 0:
        I.cover("no-signature-requested")
        I.check(False, "the-proof-site-was-exercised")
        return
    I.check(victim_ep.crash is None, "no-raw-exception-from-the-handshake",
            detail=lambda: dict(tb=victim_ep.crash))
    I.check(not sc.completed(victim_ep),
            "handshake-does-not-complete-without-a-valid-proof",
            detail=lambda: dict(error=repr(victim_ep.error)))
    se = victim.session
    chain = None
    if se is not None:
        chain = se.serverCertChain if liar == "server" else \
            se.clientCertChain
    I.check(chain is None or not sc.completed(victim_ep),
            "no-peer-chain-recorded")


# ---------------------------------------------------------------------------
# C05.3  a wrong Finished is never accepted (live pair, both roles)
# ---------------------------------------------------------------------------

def _shapes_c05_3(tier):
    out = []
    for scen in ("tls13", "tls13-psk", "tls12-ecdhe", "tls12-rsa-cbc",
                 "tls10-ecdhe"):
        for liar in ("server", "client"):
            for mode in ("arbitrary", "bitflip", "short", "long", "empty"):
                out.append(dict(scenario=scen, liar=liar, mode=mode))
    return out


@obligation("C05.3", _shapes_c05_3,
            functions=["tlslite.tlsconnection:TLSConnection."
                       "_clientTLS13Handshake",
                       "tlslite.tlsconnection:TLSConnection."
                       "_serverTLS13Handshake",
                       "tlslite.tlsconnection:TLSConnection._getFinished",
                       "tlslite.tlsconnection:TLSConnection._sendFinished",
                       "tlslite.messages:Finished.parse"],
            assumes=P.PAIR_ASSUMES + [
                "one endpoint runs the real code but sends a Finished whose "
                "verify_data is arbitrary-but-different, bit-flipped, one "
                "byte short, one byte long or empty; fixed randoms"],
            patches=_pair_patches5, max_paths=400, timeout=(600, 1800),
            also=("C04",))
def c05_3(I, shape):
    """the endpoint that receives a Finished whose verify_data is not the
    value over its own transcript never completes the handshake"""
    scen, liar, mode = shape["scenario"], shape["liar"], shape["mode"]
    if scen == "tls13-psk":
        cset, sset = P.settings13(), P.settings13()
        secret = I.bytes(32, "psk")
        for st in (cset, sset):
            st.pskConfigs = [(bytearray(b"ident"), newbuf(list(secret)),
                              "sha256")]
        sc = P.Scenario(I, PAIR_RND5, cset, sset, server_cred=None,
                        intctxt=True)
    elif scen == "tls12-rsa-cbc":
        sc = P.Scenario(I, PAIR_RND5,
                        P.settings12((3, 3), "rsa", "aes128", "sha"),
                        P.settings12((3, 3), "rsa", "aes128", "sha"),
                        server_cred="rsa", intctxt=True)
    else:
        sc = P.Scenario(I, PAIR_RND5, _settings5(scen), _settings5(scen),
                        server_cred="rsa", intctxt=True)
    genuine = []
    orig_c, orig_s = sc.cgen, sc.sgen

    def cgen(conn):
        if liar == "client":
            genuine.append(P.corrupt_finished(conn, I, mode))
        return orig_c(conn)

    def sgen(conn):
        if liar == "server":
            genuine.append(P.corrupt_finished(conn, I, mode))
        return orig_s(conn)
    sc.cgen, sc.sgen = cgen, sgen
    sc.run()
    I.check(len(genuine) == 1 and len(genuine[0]) == 1,
            "the-dishonest-side-sent-its-finished",
            detail=lambda: dict(c=repr(sc.cep.error), s=repr(sc.sep.error),
                                crash=sc.cep.crash or sc.sep.crash))
    victim_ep = sc.cep if liar == "server" else sc.sep
    I.check(victim_ep.crash is None, "no-raw-exception-from-the-handshake",
            detail=lambda: dict(tb=victim_ep.crash))
    I.check(not sc.completed(victim_ep),
            "handshake-does-not-complete-on-a-wrong-finished",
            detail=lambda: dict(error=repr(victim_ep.error)))


# ---------------------------------------------------------------------------
# C05.4  post-handshake authentication on the live pair
# ---------------------------------------------------------------------------
from tlslite.errors import TLSLocalAlert as _TLA, BaseTLSException

PHA_MODES = ("honest", "arbitrary", "bitflip", "other-key",
             "other-transcript", "empty", "short", "long",
             "finished-arbitrary", "finished-bitflip", "finished-short")


def _shapes_c05_4(tier):
    return [dict(mode=m, suite=s) for m in PHA_MODES
            for s in ("aes128gcm", "aes256gcm")]


def _pump(conn):
    """let the connection process whatever is in its inbox"""
    try:
        for r in conn.readAsync(max=1, min=0):
            if r in (0, 1) and isinstance(r, int):
                break
    except BaseTLSException as e:
        return e
    return None


@obligation("C05.4", _shapes_c05_4,
            functions=["tlslite.tlsconnection:TLSConnection."
                       "request_post_handshake_auth",
                       "tlslite.tlsrecordlayer:TLSRecordLayer._handle_pha",
                       "tlslite.tlsrecordlayer:TLSRecordLayer."
                       "_handle_srv_pha",
                       "tlslite.tlsrecordlayer:TLSRecordLayer.readAsync",
                       "tlslite.keyexchange:KeyExchange.calcVerifyBytes"],
            assumes=P.PAIR_ASSUMES + [
                "TLS 1.3 certificate handshake without client "
                "authentication, client configured with an ECDSA "
                "certificate (offers post_handshake_auth); afterwards the "
                "server requests post-handshake authentication once; the "
                "client is honest, or signs with an oracle that lacks the "
                "key (classes as in C05.2), or lies in its Finished; "
                "signature unforgeability; fixed randoms"],
            patches=_pair_patches5, max_paths=400, timeout=(600, 1800),
            also=("C16",))
def c05_4(I, shape):
    """post-handshake authentication records the client's chain exactly when
    the CertificateVerify is a valid signature by the presented key over
    handshake context || CertificateRequest || Certificate and the Finished
    is right; otherwise the server aborts and attributes nothing"""
    mode = shape["mode"]
    cset = P.settings13(shape["suite"])
    sset = P.settings13(shape["suite"])
    kw = dict(server_cred="rsa", client_cred="ecdsa", req_cert=False,
              intctxt=True, euf=True)
    sigmode = mode if not mode.startswith("finished") and mode != "honest" \
        else None
    if sigmode:
        other = P.ModelKey(RSA_KEY, "srv")
        kw["ckey"] = P.CorruptKey(EC_KEY, "cli", sigmode, I, other)
    sc = P.Scenario(I, PAIR_RND5, cset, sset, **kw)
    sc.run()
    I.check(sc.both_completed(), "handshake-completes",
            detail=lambda: dict(c=repr(sc.cep.error), s=repr(sc.sep.error),
                                crash=sc.cep.crash or sc.sep.crash))
    if not sc.both_completed():
        return
    c, s = sc.c, sc.s
    I.check(s.session.clientCertChain is None,
            "no-client-identity-before-authentication")
    I.check(s._pha_supported, "client-offered-post-handshake-auth")
    try:
        for r in s.request_post_handshake_auth(sset):
            pass
    except Exception as e:
        I.fail("request_post_handshake_auth raised %s" % type(e).__name__,
               detail=repr(e)[:200])
        return
    if mode.startswith("finished"):
        P.corrupt_finished(c, I, mode.split("-", 1)[1])
    try:
        cerr = _pump(c)
        serr = _pump(s)
    except (PathAbort, Unsupported):
        raise
    except Exception as e:
        import traceback
        I.fail("post-handshake authentication raised %s" % type(e).__name__,
               detail=traceback.format_exc()[-600:])
        return
    P.distinct_keys_assumption()
    chain = s.session.clientCertChain if s.session else None
    if mode == "honest":
        I.check(cerr is None and serr is None,
                "honest-post-handshake-authentication-completes",
                detail=lambda: dict(c=repr(cerr), s=repr(serr)))
        I.check(chain is not None and P.fp(chain) == P.fp(sc.cli_chain),
                "client-chain-recorded-after-valid-proof")
        I.check(len(sc.ckey.signed) == 1, "client-signed-once")
    else:
        I.check(isinstance(serr, _TLA),
                "server-aborts-without-a-valid-proof",
                detail=lambda: dict(s=repr(serr), c=repr(cerr)))
        I.check(chain is None, "no-client-chain-recorded-without-proof")
        I.check(s.closed, "connection-closed-after-the-failed-proof")
