"""Writes the seeded-defect table into DESIGN.md (between the SEEDTABLE
markers) from seeded/*/meta.json and seeded/RESULTS.json."""
import json
import os
import re

VERIF = os.path.dirname(os.path.dirname(os.path.abspath(__file__)))
SEEDED = os.path.join(VERIF, "seeded")


def first_line(path):
    try:
        with open(path) as f:
            for ln in f:
                ln = ln.strip().lstrip("#").strip()
                if ln:
                    return ln
    except Exception:
        pass
    return ""


def main():
    with open(os.path.join(SEEDED, "RESULTS.json")) as f:
        db = json.load(f)
    rows = []
    for prop in sorted(os.listdir(SEEDED)):
        pd = os.path.join(SEEDED, prop)
        if not os.path.isdir(pd):
            continue
        for name in sorted(os.listdir(pd)):
            d = os.path.join(pd, name)
            if not os.path.exists(os.path.join(d, "patch.diff")):
                continue
            key = "%s/%s" % (prop, name)
            files = set()
            with open(os.path.join(d, "patch.diff")) as f:
                for ln in f:
                    m = re.match(r"\+\+\+ b/(.*)", ln)
                    if m:
                        files.add(m.group(1).replace("tlslite/", ""))
            what = first_line(os.path.join(d, "notes.md"))[:110]
            own = db.get("%s|%s|quick" % (key, prop))
            others = [v for k, v in db.items()
                      if v["seed"] == key and v["check"] != prop and
                      v["detected"]]
            if own and own["detected"]:
                verdict = "caught by `./check %s`: %s" % (
                    prop, "; ".join(own["by"][:1]))
            elif others:
                verdict = "missed by `./check %s`; caught by `./check %s`: %s"\
                    % (prop, others[0]["check"], "; ".join(others[0]["by"][:1]))
            elif own:
                verdict = "**missed**"
            else:
                verdict = "not run"
            rows.append("| %s | %s | %s | %s |" % (
                key, ", ".join(sorted(files)), what.replace("|", "/"),
                verdict.replace("|", "/")))
    caught = sum(1 for r in rows if "caught by `./check" in r and
                 "missed by" not in r)
    table = ["| seed | files | change | quick check |", "|---|---|---|---|"] \
        + rows + ["", "%d of %d seeded defects are caught by the quick check "
                  "of the property they were written against." %
                  (caught, len(rows))]
    p = os.path.join(VERIF, "DESIGN.md")
    s = open(p).read()
    a = s.index("<!-- SEEDTABLE -->")
    if "<!-- /SEEDTABLE -->" in s:
        b = s.index("<!-- /SEEDTABLE -->") + len("<!-- /SEEDTABLE -->")
    else:
        b = a + len("<!-- SEEDTABLE -->")
    s = s[:a] + "<!-- SEEDTABLE -->\n" + "\n".join(table) + \
        "\n<!-- /SEEDTABLE -->" + s[b:]
    open(p, "w").write(s)
    print("%d/%d" % (caught, len(rows)))


if __name__ == "__main__":
    main()
