"""C03 - both ends agree on everything, within both policies (decision code of
the hello processing; C20.2 covers the suite filters)."""
import json

from lib.framework import obligation
from symx.core import (SymInt, SymBool, SymBytes, AND, OR, NOT, IFF, IMPLIES,
                       seq_eq, assume, is_concrete_mode, ite, PathAbort,
                       Unsupported)
from models.fixtures import newbuf
from models.conn import record, split_records
from models.hello import (hello_proxies, hello_stubs, HELLO_ASSUMES,
                          server_conn, run_server_hello, ch_bytes,
                          std_extensions, raw_ext, settings_family, Cut,
                          RSA_CHAIN, RSA_KEY, EC_CHAIN, EC_KEY)

import tlslite.tlsconnection as tc
import tlslite.extensions as X
from tlslite.constants import (ContentType, HandshakeType, ExtensionType,
                               CipherSuite, GroupName, AlertDescription,
                               AlertLevel)
from tlslite.handshakesettings import HandshakeSettings

SRV_FUNCS = ["tlslite.tlsconnection:TLSConnection._serverGetClientHello",
             "tlslite.tlsconnection:TLSConnection._server_select_certificate",
             "tlslite.tlsconnection:TLSConnection._pickServerKeyExchangeSig",
             "tlslite.tlsconnection:TLSConnection._sigHashesToList",
             "tlslite.tlsconnection:TLSConnection._curveNamesToList",
             "tlslite.tlsconnection:TLSConnection._groupNamesToList",
             "tlslite.tlsrecordlayer:TLSRecordLayer._getMsg",
             "tlslite.tlsrecordlayer:TLSRecordLayer._sendError",
             "tlslite.messages:ClientHello.parse",
             "tlslite.constants:CipherSuite._filterSuites",
             "tlslite.constants:CipherSuite.filterForVersion",
             "tlslite.constants:CipherSuite.filter_for_certificate"]

FAMILY = None


def family():
    global FAMILY
    if FAMILY is None:
        FAMILY = settings_family()
    return FAMILY


def _shapes_c03_2(tier):
    out = []
    for name in sorted(settings_family()):
        for cred in ("rsa", "ecdsa"):
            for sv in (True, False):
                out.append(dict(settings=name, cred=cred, supported_versions=sv))
    return out


def suite_ok_for(cs, settings, version, chain):
    """oracle: admitted by the settings filter, by the version and by the
    certificate (the filters themselves are C20.2's subject)"""
    f = CipherSuite._filterSuites([cs], settings, version)
    f = CipherSuite.filterForVersion(f, version, version)
    f = CipherSuite.filter_for_certificate(f, chain)
    return f == [cs]


@obligation("C03.2", _shapes_c03_2, functions=SRV_FUNCS,
            assumes=HELLO_ASSUMES + [
                "ClientHello: legacy version (3, symbolic minor), two "
                "symbolic cipher-suite ids plus symbolic presence of "
                "FALLBACK_SCSV, optional supported_versions with two "
                "entries of symbolic minor, fixed groups/key_share/"
                "signature_algorithms; server settings from a fixed family "
                "of validated HandshakeSettings; RSA or ECDSA credentials"],
            patches=lambda s: (hello_proxies(), hello_stubs()),
            max_paths=20000, timeout=(400, 1500), also=("C04", "C19", "C20"))
def c03_2(I, shape):
    """whatever the server selects lies inside its own settings and inside
    what the client offered; otherwise it answers with an alert"""
    settings = family()[shape["settings"]]
    chain, key = (RSA_CHAIN, RSA_KEY) if shape["cred"] == "rsa" \
        else (EC_CHAIN, EC_KEY)
    minor = I.int_range(0, 4, "legacy_minor")
    s1 = I.uint(16, "suite1")
    s2 = I.uint(16, "suite2")
    suites = [s1, s2]
    fallback = I.pick([False, True], "fallback_scsv")
    if fallback:
        suites.append(CipherSuite.TLS_FALLBACK_SCSV)
    use_sv = shape["supported_versions"]
    if use_sv:
        v1 = I.int_range(0, 5, "sv1")
        v2 = I.int_range(0, 5, "sv2")
        offered = [(3, v1), (3, v2)]
        exts = std_extensions(True, versions=offered)
    else:
        offered = None
        exts = std_extensions(False)
    wire = record(ContentType.handshake, ch_bytes((3, minor), suites, exts))
    conn = server_conn(wire)
    out = run_server_hello(conn, settings, chain, key)
    if out["kind"] == "alert":
        sent = out["sent"]
        I.check(len(sent) >= 1 and sent[-1][0] == ContentType.alert and
                bool(sent[-1][2][0] == AlertLevel.fatal),
                "fatal-alert-on-the-wire")
        return
    if out["kind"] != "ret":
        I.cover(out["kind"])
        return
    clientHello, version, cs, sig_scheme, pk, cc = out["result"]
    k = int(cs)
    # --- server policy ---
    I.check(settings.minVersion <= version <= settings.maxVersion,
            "version-inside-server-settings",
            detail=lambda: dict(version=version, min=settings.minVersion,
                                max=settings.maxVersion))
    I.check(suite_ok_for(k, settings, version, cc),
            "suite-inside-server-settings-version-and-certificate",
            detail=lambda: dict(suite=hex(k), version=version))
    # --- client offer ---
    I.check(OR(s1 == k, s2 == k), "suite-was-offered-by-the-client")
    if offered is not None:
        # RFC 8446 4.2.1: with supported_versions present the legacy version
        # is not used for negotiation
        I.check(OR([version[1] == v[1] for v in offered]),
                "version-was-offered-in-supported_versions")
    else:
        I.check(version[1] <= minor, "version-not-above-client-legacy-version")
    if fallback:
        I.check(version == settings.maxVersion,
                "fallback-scsv-accepted-only-at-the-servers-best-version")
    if sig_scheme is not None and version >= (3, 3):
        # the scheme is one the client listed (fixed list above)
        I.check(sig_scheme in ("sha256", "rsa_pss_rsae_sha256",
                               "ecdsa_secp256r1_sha256", "sha1"),
                "signature-scheme-was-offered",
                detail=lambda: dict(sig_scheme=sig_scheme))


# ---------------------------------------------------------------------------
# C03.3 / C04.5  client: accepts only what it offered; downgrade sentinel
# ---------------------------------------------------------------------------
from models.hello import client_conn, run_client_hello, sh_bytes
import tlslite.extensions as _X
from tlslite.constants import (TLS_1_1_DOWNGRADE_SENTINEL,
                               TLS_1_2_DOWNGRADE_SENTINEL)

CLI_FUNCS = ["tlslite.tlsconnection:TLSConnection._handshakeClientAsyncHelper",
             "tlslite.tlsconnection:TLSConnection._clientSendClientHello",
             "tlslite.tlsconnection:TLSConnection._clientGetServerHello",
             "tlslite.tlsrecordlayer:TLSRecordLayer._getMsg",
             "tlslite.messages:ServerHello.parse",
             "tlslite.constants:CipherSuite.filterForVersion"]


def _cli_settings():
    fam = {}
    for lo, hi in (((3, 1), (3, 4)), ((3, 1), (3, 3)), ((3, 1), (3, 1)),
                   ((3, 3), (3, 3)), ((3, 3), (3, 4)), ((3, 4), (3, 4)),
                   ((3, 1), (3, 2))):
        s = HandshakeSettings()
        s.minVersion, s.maxVersion = lo, hi
        s.keyShares = ["secp256r1"]
        fam["v%d%d-%d%d" % (lo + hi)] = s
    s = HandshakeSettings()
    s.requireExtendedMasterSecret = True
    s.keyShares = ["secp256r1"]
    s.maxVersion = (3, 3)
    fam["require-ems"] = s
    return fam


def _shapes_c03_3(tier):
    out = []
    for name in sorted(_cli_settings()):
        for sv in (True, False):
            out.append(dict(settings=name, supported_versions=sv))
    return out


@obligation("C03.3", _shapes_c03_3, functions=CLI_FUNCS,
            assumes=HELLO_ASSUMES + [
                "the ClientHello is built natively by the real "
                "_clientSendClientHello for each settings family member "
                "(anonymous + certificate suites); ServerHello: symbolic "
                "legacy minor version, optional supported_versions with "
                "symbolic minor, symbolic cipher suite, compression byte, "
                "last 8 bytes of the random, EMS extension presence; "
                "session_id echoed or not (symbolic choice)"],
            patches=lambda s: (hello_proxies(), hello_stubs()),
            max_paths=20000, timeout=(400, 1500), also=("C04", "C20"))
def c03_3(I, shape):
    """the client goes on only with a version inside its settings, a suite
    it offered that the version defines, null compression, and never past a
    downgrade sentinel"""
    settings = _cli_settings()[shape["settings"]]
    vsettings = settings.validate()
    minor = I.int_range(0, 4, "sh_minor")
    suite = I.uint(16, "suite")
    comp = I.byte("compression")
    tail = I.bytes(8, "random_tail")
    echo = I.pick([True, False], "echo_session_id")
    ems = I.pick([True, False], "ems")
    sv_minor = I.int_range(0, 5, "sv_minor") if shape["supported_versions"] \
        else None

    def server_wire(ch):
        exts = []
        if sv_minor is not None:
            exts.append(_X.SrvSupportedVersionsExtension().create(
                (3, sv_minor)))
            exts.append(_X.ServerKeyShareExtension().create(
                _X.KeyShareEntry().create(GroupName.secp256r1,
                                          bytearray(b"\x04" + b"\x02" * 64))))
        if ems:
            exts.append(raw_ext(ExtensionType.extended_master_secret, []))
        sid = ch.session_id if echo else bytearray(b"other-session-id")
        rnd = newbuf([9] * 24 + list(tail))
        return record(ContentType.handshake,
                      sh_bytes((3, minor), rnd, sid, suite, exts or None,
                               comp))
    conn = client_conn()
    out = run_client_hello(conn, settings, server_wire)
    ch = out["clientHello"]
    if out["kind"] in ("alert", "remote-alert"):
        I.cover(out["kind"])
        return
    # the handshake goes on
    version = conn.version
    I.check(vsettings.minVersion <= version <= vsettings.maxVersion,
            "negotiated-version-inside-client-settings",
            detail=lambda: dict(version=version,
                                min=vsettings.minVersion,
                                max=vsettings.maxVersion))
    k = int(suite)
    I.check(k in ch.cipher_suites, "suite-was-offered")
    I.check(CipherSuite.filterForVersion([k], version, version) == [k],
            "suite-defined-for-the-version")
    I.check(comp == 0, "null-compression")
    if version > (3, 3):
        I.check(echo, "tls13-session-id-echoed")
        I.check(out["kind"] == "tls13", "tls13-flow-entered")
    else:
        I.check(out["kind"] == "tls12-continues", "tls12-flow-entered")
    if shape["settings"] == "require-ems":
        I.check(ems, "ems-required-and-present")
    # RFC 8446 4.1.3 downgrade protection
    t = list(tail)
    is12 = seq_eq(t, list(TLS_1_2_DOWNGRADE_SENTINEL))
    is11 = seq_eq(t, list(TLS_1_1_DOWNGRADE_SENTINEL))
    if vsettings.maxVersion > (3, 3) and version <= (3, 3):
        I.check(NOT(OR(is12, is11)),
                "tls13-client-rejects-downgrade-sentinels")
    if vsettings.maxVersion == (3, 3) and version < (3, 3):
        I.check(NOT(is11), "tls12-client-rejects-tls11-sentinel")


# ---------------------------------------------------------------------------
# C03.4  the server does not refuse an offer it is compatible with
# ---------------------------------------------------------------------------

def _shapes_c03_4(tier):
    out = []
    for cred in ("rsa", "ecdsa"):
        for groups in ("x25519", "secp256r1", "secp384r1", "x25519+secp256r1"):
            for tls13 in (True, False):
                out.append(dict(cred=cred, groups=groups, tls13=tls13))
    return out


@obligation("C03.4", _shapes_c03_4, functions=SRV_FUNCS,
            assumes=HELLO_ASSUMES + [
                "ClientHello offering TLS 1.3 (or TLS 1.2 only) with the "
                "enumerated supported_groups/key_share and signature "
                "algorithms for both RSA and ECDSA P-256; default server "
                "settings; compatibility oracle written from RFC 8446 4.2.7 "
                "(groups constrain the key exchange only) and RFC 8422 5.1.1 "
                "(TLS <= 1.2: the certificate's curve must be among the "
                "client's groups)"],
            patches=lambda s: (hello_proxies(), hello_stubs()),
            max_paths=4000, also=("C19",))
def c03_4(I, shape):
    """compatible offers are answered with a selection, not an alert"""
    chain, key = (RSA_CHAIN, RSA_KEY) if shape["cred"] == "rsa" \
        else (EC_CHAIN, EC_KEY)
    gmap = {"x25519": GroupName.x25519, "secp256r1": GroupName.secp256r1,
            "secp384r1": GroupName.secp384r1}
    groups = [gmap[g] for g in shape["groups"].split("+")]
    sigalgs = [(8, 4), (4, 1), (4, 3), (5, 3)]
    exts = std_extensions(shape["tls13"], groups=groups, sigalgs=sigalgs,
                          key_share_groups=groups[:1])
    suites = [CipherSuite.TLS_AES_128_GCM_SHA256,
              CipherSuite.TLS_ECDHE_RSA_WITH_AES_128_GCM_SHA256,
              CipherSuite.TLS_ECDHE_ECDSA_WITH_AES_128_GCM_SHA256]
    rnd = I.bytes(32, "client_random")
    wire = record(ContentType.handshake,
                  ch_bytes((3, 3), suites, exts, random=newbuf(list(rnd))))
    conn = server_conn(wire)
    settings = family()["default"]
    out = run_server_hello(conn, settings, chain, key)
    if shape["tls13"]:
        compatible = True
    else:
        # TLS 1.2 ECDHE: a common curve is needed; for an ECDSA certificate
        # its own curve (P-256) must be supported by the client
        compatible = shape["cred"] == "rsa" or \
            GroupName.secp256r1 in groups
    if compatible:
        I.check(out["kind"] == "ret", "compatible-offer-is-not-refused",
                detail=lambda: dict(kind=out["kind"],
                                    alert=str(out.get("alert"))))
        if out["kind"] == "ret":
            version = out["result"][1]
            I.check(version == ((3, 4) if shape["tls13"] else (3, 3)),
                    "highest-common-version-selected")
    else:
        I.check(out["kind"] == "alert", "incompatible-offer-gets-an-alert")


# ---------------------------------------------------------------------------
# C03.5  record size limits after Finished (TLS <= 1.2)
# ---------------------------------------------------------------------------

@obligation("C03.5", lambda tier: [dict(client=c) for c in (True, False)],
            functions=["tlslite.tlsconnection:TLSConnection._sendFinished"],
            assumes=["_sendFinished is run on a real connection with the "
                     "peer's advertised record_size_limit and the own "
                     "setting as symbolic integers (64..2^14+1); calc_key "
                     "and the cipher state change are stubs"],
            patches=lambda s: (hello_proxies(), hello_stubs() + [
                (tc, "calc_key", lambda *a, **k: bytearray(12))]),
            also=("C01",))
def c03_5(I, shape):
    """after the handshake each side sends at most what the PEER advertised
    and accepts what IT advertised itself (RFC 8449): the two limits are
    independent"""
    from models.conn import make_conn
    peer = I.int_range(64, 2 ** 14, "peer_limit")
    own = I.int_range(64, 2 ** 14 + 1, "own_limit")
    conn, sock = make_conn((3, 3), shape["client"], session=False)
    conn._changeWriteState = lambda: None
    conn._peer_record_size_limit = peer

    class S(object):
        record_size_limit = own
    for r in conn._sendFinished(bytearray(48), 0x2f, None, settings=S()):
        pass
    I.check(conn._send_record_limit == peer,
            "send-limit-is-what-the-peer-advertised")
    I.check(conn._recv_record_limit == ite(own < 2 ** 14, own, 2 ** 14),
            "receive-limit-is-the-own-setting-capped-at-2^14")


# ---------------------------------------------------------------------------
# C03.6  two live TLS 1.3 endpoints: agreement and the RFC 8446 key schedule
# ---------------------------------------------------------------------------
from models import pair as P
from models.hashmodel import hash_bytes, hmac_bytes, SIZES

PAIR_FUNCS = ["tlslite.tlsconnection:TLSConnection._handshakeClientAsyncHelper",
              "tlslite.tlsconnection:TLSConnection._clientSendClientHello",
              "tlslite.tlsconnection:TLSConnection._clientGetServerHello",
              "tlslite.tlsconnection:TLSConnection._clientTLS13Handshake",
              "tlslite.tlsconnection:TLSConnection._handshakeServerAsyncHelper",
              "tlslite.tlsconnection:TLSConnection._serverGetClientHello",
              "tlslite.tlsconnection:TLSConnection._serverTLS13Handshake",
              "tlslite.tlsconnection:TLSConnection.keyingMaterialExporter",
              "tlslite.recordlayer:RecordLayer.calcTLS1_3PendingState",
              "tlslite.recordlayer:RecordLayer.sendRecord",
              "tlslite.recordlayer:RecordLayer.recvRecord",
              "tlslite.handshakehelpers:HandshakeHelpers.update_binders",
              "tlslite.handshakehelpers:HandshakeHelpers.verify_binder",
              "tlslite.utils.cryptomath:derive_secret",
              "tlslite.utils.cryptomath:HKDF_expand_label",
              "tlslite.handshakehashes:HandshakeHashes"]

PAIR_RND = P.RandomSource(None)

SUITES13 = P.SUITES13


def _shapes_c03_6(tier):
    out = []
    for auth in ("psk_dhe", "psk_ke", "cert", "cert+client"):
        for suite in ("aes128", "aes256", "chacha"):
            if tier == "quick" and suite == "chacha" and auth != "cert":
                continue
            out.append(dict(auth=auth, suite=suite))
    # HelloRetryRequest: the client's only share is for a group the server
    # does not allow
    for auth in ("psk_dhe", "cert", "cert+client"):
        for suite in (("aes128", "aes256") if tier == "quick"
                      else ("aes128", "aes256", "chacha")):
            out.append(dict(auth=auth, suite=suite, hrr=True))
    if tier != "quick":
        # other groups for the (modelled) key share
        for group in ("secp256r1", "secp384r1", "secp521r1", "x448"):
            for auth in ("psk_dhe", "cert+client"):
                out.append(dict(auth=auth, suite="aes128", group=group))
    return out


def _pair_patches(shape):
    P.ModelKEX.rnd = PAIR_RND
    return (P.pair_proxies(), P.pair_stubs(PAIR_RND))


@obligation("C03.6", _shapes_c03_6, functions=PAIR_FUNCS,
            assumes=P.PAIR_ASSUMES + [
                "TLS 1.3 only; external PSK (symbolic 32/48-byte secret) in "
                "psk_ke / psk_dhe_ke mode, or certificate authentication "
                "with optional client authentication; one cipher suite per "
                "shape; x25519 share; no tickets (ticket_count=0); no "
                "HelloRetryRequest"],
            patches=_pair_patches, max_paths=64, timeout=(600, 1800),
            also=("C04", "C05", "C09", "C02"))
def c03_6(I, shape):
    """honest TLS 1.3 peers complete the handshake; both hold the same
    traffic / exporter / resumption secrets, equal to the RFC 8446 7.1
    schedule evaluated over the transcript seen on the wire; every protected
    record is sealed under the key and sequence number of its epoch;
    exporters and application data agree"""
    sc = P.Scenario13(I, PAIR_RND, shape["auth"], shape["suite"])
    if shape.get("group"):
        for st in (sc.cset, sc.sset):
            st.keyShares = [shape["group"]]
            st.eccCurves = [shape["group"]]
    if shape.get("hrr"):
        sc.cset.keyShares = ["x25519"]
        sc.cset.eccCurves = ["x25519", "secp256r1"]
        sc.sset.keyShares = ["secp256r1"]
        sc.sset.eccCurves = ["secp256r1"]
    sc.run()
    auth, sname = sc.auth, sc.sname
    alg, n, klen, psk = sc.alg, sc.n, sc.klen, sc.psk
    cep, sep, wire, c, s = sc.cep, sc.sep, sc.wire, sc.c, sc.s
    skey, ckey = sc.skey, sc.ckey
    want_client_cert = sc.client_auth
    I.check(sc.both_completed(), "honest-handshake-completes",
            detail=lambda: dict(client=repr(cep.error), server=repr(sep.error),
                                cdone=cep.done, sdone=sep.done))
    if not sc.both_completed():
        return
    view = P.WireView(wire)
    shared = None
    if auth != "psk_ke":
        I.check(len(P.ModelKEX.log) == 2, "one-dh-computation-per-side")
        shared = P.ModelKEX.log[0][3]
    ref = P.Schedule13(alg, psk, shared, view)
    I.check(bool(view.hrr) == bool(shape.get("hrr")),
            "hello-retry-request-exactly-when-no-usable-share")
    if shape.get("hrr"):
        I.check(P.ModelKEX.log[0][0] == GroupName.secp256r1 and
                c.ecdhCurve == s.ecdhCurve == GroupName.secp256r1,
                "group-after-retry-is-the-server-s")
    cs, ss = c.session, s.session
    I.check(c.version == (3, 4) and s.version == (3, 4), "version-agreed")
    I.check(cs.cipherSuite == ss.cipherSuite == SUITES13[sname],
            "suite-agreed-and-inside-settings")
    for name, attr, want in (
            ("client-app-traffic-secret", "cl_app_secret", ref.c_ap),
            ("server-app-traffic-secret", "sr_app_secret", ref.s_ap),
            ("exporter-master-secret", "exporterMasterSecret", ref.exp),
            ("resumption-master-secret", "resumptionMasterSecret", ref.res),
            ("master-secret", "masterSecret", ref.master)):
        a, b = list(getattr(cs, attr)), list(getattr(ss, attr))
        I.check(len(a) == n and seq_eq(a, b), name + "-agreed")
        I.check(len(a) == n and seq_eq(a, want), name + "-is-rfc8446-value")
    # exporters
    for ctx_, ln in ((None, 20), (bytearray(b"ctx"), 40)):
        ea = c.keyingMaterialExporter(bytearray(b"EXPORTER-test"), ln)
        eb = s.keyingMaterialExporter(bytearray(b"EXPORTER-test"), ln)
        I.check(seq_eq(list(ea), list(eb)), "exported-keying-material-agreed")
        I.check(seq_eq(list(ea), ref.exporter(b"EXPORTER-test", None, ln)),
                "exported-keying-material-is-rfc8446-value")
        break
    # record epochs: every protected record carries the tag of the key of
    # its epoch with the right sequence number
    keys = {("s", "hs"): ref.key_iv(ref.s_hs, klen),
            ("c", "hs"): ref.key_iv(ref.c_hs, klen),
            ("s", "ap"): ref.key_iv(ref.s_ap, klen),
            ("c", "ap"): ref.key_iv(ref.c_ap, klen)}
    tagname = sc.tagname
    epoch = {"c": "hs", "s": "hs"}
    seq = {"c": 0, "s": 0}
    for r in view.protected:
        who = r["sender"]
        key, iv = keys[(who, epoch[who])]
        sq = seq[who]
        nonce = list(iv)
        for j in range(8):
            nonce[11 - j] = nonce[11 - j] ^ ((sq >> (8 * j)) & 0xff)
        from symx.uf import apply_uf
        want = apply_uf("TAG" + tagname, list(key) + nonce + [5] +
                        r["header"] + list(r["inner"]), 16)
        I.check(seq_eq(list(r["tag"]), list(want)),
                "record-sealed-under-its-epoch-key-and-sequence-number",
                detail=lambda: dict(sender=who, epoch=epoch[who], seq=sq,
                                    type=r["type"]))
        seq[who] += 1
        if HandshakeType.finished in r.get("ends", []):
            epoch[who] = "ap"
            seq[who] = 0
    I.check(epoch == {"c": "ap", "s": "ap"}, "both-finished-seen-on-the-wire")
    # application data both ways
    nrec = len(view.records)
    for src, dst, msg in ((c, s, b"ping"), (s, c, b"pong!")):
        for r in src.writeAsync(bytearray(msg)):
            pass
        got = None
        for r in dst.readAsync(max=16, min=1):
            if r in (0, 1) and isinstance(r, int):
                break
            got = r
        I.check(got is not None and bytes(got) == msg,
                "application-data-delivered-intact",
                detail=lambda: dict(got=repr(got)))
    # certificates
    if auth.startswith("cert"):
        I.check(cs.serverCertChain is not None and
                P.fp(cs.serverCertChain) == P.fp(RSA_CHAIN) and
                P.fp(ss.serverCertChain) == P.fp(RSA_CHAIN),
                "server-chain-agreed")
        I.check(len(skey.signed) == 1 and len(skey.verified) >= 1,
                "server-proved-possession")
        if want_client_cert:
            I.check(ss.clientCertChain is not None and
                    P.fp(ss.clientCertChain) == P.fp(EC_CHAIN),
                    "client-chain-agreed")
            I.check(len(ckey.verified) >= 1,
                    "client-proof-verified-by-the-server")


# ---------------------------------------------------------------------------
# C03.7  two live TLS 1.0-1.2 endpoints: agreement and the RFC 5246 schedule
# ---------------------------------------------------------------------------
import tlslite.messages as M
from tlslite.utils.codec import Parser

PAIR12_FUNCS = [
    "tlslite.tlsconnection:TLSConnection._handshakeClientAsyncHelper",
    "tlslite.tlsconnection:TLSConnection._clientKeyExchange",
    "tlslite.tlsconnection:TLSConnection._clientFinished",
    "tlslite.tlsconnection:TLSConnection._handshakeServerAsyncHelper",
    "tlslite.tlsconnection:TLSConnection._serverCertKeyExchange",
    "tlslite.tlsconnection:TLSConnection._serverFinished",
    "tlslite.tlsconnection:TLSConnection._calculate_master_secret",
    "tlslite.tlsconnection:TLSConnection._sendFinished",
    "tlslite.tlsconnection:TLSConnection._getFinished",
    "tlslite.recordlayer:RecordLayer.calcPendingStates",
    "tlslite.mathtls:calc_key", "tlslite.mathtls:PRF",
    "tlslite.mathtls:PRF_1_2", "tlslite.mathtls:PRF_1_2_SHA384",
    "tlslite.keyexchange:RSAKeyExchange",
    "tlslite.keyexchange:DHE_RSAKeyExchange",
    "tlslite.keyexchange:ECDHE_RSAKeyExchange"]

PAIR_RND12 = P.RandomSource(None)

# cipher name -> (kind, key length, fixed-iv length, block, tag-function name)
CIPHER12 = {"aes128gcm": ("gcm", 16, 4, 0, "aes128gcm"),
            "aes256gcm": ("gcm", 32, 4, 0, "aes256gcm"),
            "chacha20-poly1305": ("chacha", 32, 12, 0, "chacha20-poly1305"),
            "aes128": ("cbc", 16, 16, 16, None),
            "aes256": ("cbc", 32, 16, 16, None),
            "3des": ("cbc", 24, 8, 8, None),
            "rc4": ("stream", 16, 0, 0, None)}
MACLEN = {"sha": (20, "sha1"), "sha256": (32, "sha256"),
          "sha384": (48, "sha384"), "md5": (16, "md5")}


def _pair12_patches(shape):
    P.ModelKEX.rnd = PAIR_RND12
    return (P.pair_proxies(), P.pair12_stubs(PAIR_RND12))


def _shapes_c03_7(tier):
    out = []

    def add(v, kxn, cipher, mac="sha", ems=True, etm=True):
        out.append(dict(version=list(v), kx=kxn, cipher=cipher, mac=mac,
                        ems=ems, etm=etm))
    for kxn in ("rsa", "dhe_rsa", "ecdhe_rsa"):
        add((3, 3), kxn, "aes128gcm")
        add((3, 3), kxn, "aes128", "sha")
    add((3, 3), "ecdhe_rsa", "aes256gcm")
    add((3, 3), "ecdhe_rsa", "chacha20-poly1305")
    add((3, 3), "ecdhe_rsa", "aes256", "sha384")
    add((3, 3), "dhe_rsa", "aes256", "sha256")
    add((3, 3), "ecdhe_rsa", "aes128", "sha", True, False)
    add((3, 3), "ecdhe_rsa", "aes128", "sha", False, True)
    add((3, 3), "rsa", "aes128gcm", "sha", False, False)
    add((3, 3), "ecdhe_ecdsa", "aes128gcm")
    for v in ((3, 1), (3, 2)):
        add(v, "rsa", "aes128", "sha")
        add(v, "ecdhe_rsa", "aes128", "sha", True, False)
        add(v, "dhe_rsa", "3des", "sha", False, True)
    add((3, 1), "rsa", "rc4", "sha")
    add((3, 2), "rsa", "rc4", "md5", False, False)
    if tier != "quick":
        seen = set(json.dumps(x, sort_keys=True) for x in out)
        for v in ((3, 1), (3, 2), (3, 3)):
            for kxn in ("rsa", "dhe_rsa", "ecdhe_rsa", "ecdhe_ecdsa"):
                for cipher, macs in (("aes128gcm", ("sha",)),
                                     ("aes256gcm", ("sha",)),
                                     ("chacha20-poly1305", ("sha",)),
                                     ("aes128", ("sha", "sha256")),
                                     ("aes256", ("sha", "sha256", "sha384")),
                                     ("3des", ("sha",)),
                                     ("rc4", ("sha", "md5"))):
                    for mac in macs:
                        if not _suite_exists(v, kxn, cipher, mac):
                            continue
                        for ems, etm in ((True, True), (False, False)):
                            d = dict(version=list(v), kx=kxn, cipher=cipher,
                                     mac=mac, ems=ems, etm=etm)
                            k = json.dumps(d, sort_keys=True)
                            if k not in seen:
                                seen.add(k)
                                out.append(d)
    return out


def _suite_exists(version, kxn, cipher, mac):
    """is there a suite for this combination that the version can use?
    (settings-level filter of the library - the obligation then checks the
    negotiated suite against its IETF name)"""
    st = P.settings12(version, kxn, cipher, mac)
    try:
        st = st.validate()
    except ValueError:
        return False
    cands = []
    for getter in ("getCertSuites", "getDheCertSuites", "getEcdheCertSuites",
                   "getEcdsaSuites"):
        cands += getattr(CipherSuite, getter)(st, version)
    cands = CipherSuite.filterForVersion(cands, version, version)
    return bool(cands)


def _has_ext(msg, t):
    return msg.getExtension(t) is not None


@obligation("C03.7", _shapes_c03_7, functions=PAIR12_FUNCS,
            assumes=P.PAIR_ASSUMES + [
                "TLS 1.0/1.1/1.2; RSA, DHE_RSA (ffdhe2048, real modular "
                "arithmetic on fixed exponents), ECDHE (x25519 model) key "
                "exchange; RSA encryption model enc(m) = 0xEE || m; CBC and "
                "RC4 modelled as identity encryption with the real MAC / "
                "padding code over the HMAC model; one cipher/MAC/key "
                "exchange per shape; no tickets, no client authentication"],
            patches=_pair12_patches, max_paths=64, timeout=(600, 1800),
            also=("C04", "C09", "C02"))
def c03_7(I, shape):
    """honest TLS <= 1.2 peers complete; both hold the same master secret,
    equal to the RFC 5246 / 7627 value over the wire transcript; Finished
    values, key block use (every protected record carries the MAC/tag of
    its direction's key and sequence number), EMS / EtM flags, exporters and
    application data agree"""
    version = tuple(shape["version"])
    sc = P.Scenario12(I, PAIR_RND12, version, shape["kx"], shape["cipher"],
                      shape["mac"], shape["ems"], shape["etm"]).run()
    cep, sep, c, s = sc.cep, sc.sep, sc.c, sc.s
    I.check(sc.both_completed(), "honest-handshake-completes",
            detail=lambda: dict(client=repr(cep.error), server=repr(sep.error),
                                cdone=cep.done, sdone=sep.done,
                                crash=cep.crash or sep.crash))
    if not sc.both_completed():
        return
    view = P.WireView12(sc.wire)
    ch = M.ClientHello().parse(Parser(newbuf(
        view.first("c", HandshakeType.client_hello)[1:])))
    sh = M.ServerHello().parse(Parser(newbuf(
        view.first("s", HandshakeType.server_hello)[1:])))
    cr, sr = list(ch.random), list(sh.random)
    suite = sh.cipher_suite
    cs, ss = c.session, s.session
    I.check(c.version == version and s.version == version and
            tuple(sh.server_version) == version, "version-agreed")
    I.check(cs.cipherSuite == ss.cipherSuite == suite,
            "suite-agreed-with-the-wire")
    kind, klen, ivlen, block, tagname = CIPHER12[shape["cipher"]]
    I.check(suite in CipherSuite._filterSuites([suite], sc.cset, version)
            and suite in CipherSuite._filterSuites([suite], sc.sset, version),
            "suite-inside-both-settings")
    # independent reading of the suite id: its IETF name
    nm = CipherSuite.ietfNames.get(suite, "")
    fam = [f for f, pat in (("ecdhe_rsa", "TLS_ECDHE_RSA_"),
                            ("ecdhe_ecdsa", "TLS_ECDHE_ECDSA_"),
                            ("dhe_rsa", "TLS_DHE_RSA_"),
                            ("rsa", "TLS_RSA_WITH_")) if nm.startswith(pat)]
    cpat = {"aes128gcm": "AES_128_GCM", "aes256gcm": "AES_256_GCM",
            "chacha20-poly1305": "CHACHA20_POLY1305",
            "aes128": "AES_128_CBC", "aes256": "AES_256_CBC",
            "3des": "3DES_EDE_CBC", "rc4": "RC4_128"}[shape["cipher"]]
    I.check(fam == [shape["kx"]] and cpat in nm,
            "suite-name-matches-both-policies",
            detail=lambda: dict(suite=nm, kx=shape["kx"],
                                cipher=shape["cipher"]))
    alg = "sha384" if suite in CipherSuite.sha384PrfSuites else "sha256"
    ems = _has_ext(ch, ExtensionType.extended_master_secret) and \
        _has_ext(sh, ExtensionType.extended_master_secret)
    etm = _has_ext(ch, ExtensionType.encrypt_then_mac) and \
        _has_ext(sh, ExtensionType.encrypt_then_mac)
    I.check(ems == shape["ems"], "ems-negotiated-as-configured")
    I.check(etm == (shape["etm"] and kind == "cbc"),
            "etm-negotiated-only-for-cbc")
    I.check(cs.extendedMasterSecret == ss.extendedMasterSecret == ems,
            "ems-flag-agreed")
    I.check(cs.encryptThenMAC == ss.encryptThenMAC == etm, "etm-flag-agreed")
    pm = sc.premaster()
    I.check(pm is not None, "premaster-observed")

    def th(msgs, which=None):
        data = [x for m in msgs for x in m]
        if version >= (3, 3):
            return list(hash_bytes(alg, data))
        return list(hash_bytes("md5", data)) + list(hash_bytes("sha1", data))
    upto_cke = []
    for w, t, b in view.msgs:
        upto_cke.append(b)
        if t == HandshakeType.client_key_exchange:
            break
    if ems:
        master = P.prf(version, alg, pm, b"extended master secret",
                       th(upto_cke), 48)
    else:
        master = P.prf(version, alg, pm, b"master secret", cr + sr, 48)
    I.check(seq_eq(list(cs.masterSecret), list(ss.masterSecret)),
            "master-secret-agreed")
    I.check(seq_eq(list(cs.masterSecret), master),
            "master-secret-is-rfc-value")
    # key block
    maclen, macalg = (0, None) if kind in ("gcm", "chacha") \
        else MACLEN[shape["mac"]]
    kb = P.prf(version, alg, master, b"key expansion", sr + cr,
               2 * maclen + 2 * klen + 2 * ivlen)
    p = 0
    parts = {}
    for nm, ln in (("cmac", maclen), ("smac", maclen), ("ckey", klen),
                   ("skey", klen), ("civ", ivlen), ("siv", ivlen)):
        parts[nm] = kb[p:p + ln]
        p += ln
    # protected records: decode with the model's identity encryption and
    # compare the integrity value with the reference key block
    seq = {"c": 0, "s": 0}
    plain = {"c": [], "s": []}
    from symx.uf import apply_uf
    for r in view.protected:
        who, pl = r["sender"], list(r["payload"])
        sq = [(seq[who] >> (8 * (7 - j))) & 0xff for j in range(8)]
        hdr = [r["type"], r["ver"][0], r["ver"][1]]
        key, iv, mk = parts[who + "key"], parts[who + "iv"], \
            parts[who + "mac"]
        if kind == "gcm":
            nonce, pt, tag = iv + pl[:8], pl[8:-16], pl[-16:]
            aad = sq + hdr + [len(pt) >> 8, len(pt) & 0xff]
            want = apply_uf("TAG" + tagname, key + nonce + [len(aad)] + aad +
                            pt, 16)
            I.check(seq_eq(tag, list(want)) and seq_eq(pl[:8], sq),
                    "record-sealed-under-its-key-and-sequence-number")
        elif kind == "chacha":
            nonce = [a ^ b for a, b in zip(iv, [0] * 4 + sq)]
            pt, tag = pl[:-16], pl[-16:]
            aad = sq + hdr + [len(pt) >> 8, len(pt) & 0xff]
            want = apply_uf("TAG" + tagname, key + nonce + [len(aad)] + aad +
                            pt, 16)
            I.check(seq_eq(tag, list(want)),
                    "record-sealed-under-its-key-and-sequence-number")
        else:
            body = pl
            explicit = []
            if kind == "cbc" and version >= (3, 2):
                explicit, body = body[:block], body[block:]
            if etm:
                body, mac = body[:-maclen], body[-maclen:]
                covered = explicit + body
                want = hmac_bytes(macalg, mk, sq + hdr +
                                  [len(covered) >> 8, len(covered) & 0xff] +
                                  covered)
                I.check(seq_eq(mac, list(want)),
                        "record-maced-under-its-key-and-sequence-number")
                padlen = int(body[-1])
                pt = body[:-(padlen + 1)]
            else:
                if kind == "cbc":
                    padlen = int(body[-1])
                    body = body[:-(padlen + 1)]
                pt, mac = body[:-maclen], body[-maclen:]
                want = hmac_bytes(macalg, mk, sq + hdr +
                                  [len(pt) >> 8, len(pt) & 0xff] + pt)
                I.check(seq_eq(mac, list(want)),
                        "record-maced-under-its-key-and-sequence-number")
        plain[who].append((r["type"], pt))
        seq[who] += 1
    # Finished values
    allmsgs = [b for w, t, b in view.msgs]
    for who, label in (("c", b"client finished"), ("s", b"server finished")):
        I.check(len(plain[who]) >= 1 and
                plain[who][0][0] == ContentType.handshake and
                len(plain[who][0][1]) == 16 and
                bool(plain[who][0][1][0] == HandshakeType.finished),
                "first-protected-record-is-finished")
    first, second = ("c", "s")
    fin1 = plain["c"][0][1]
    fin2 = plain["s"][0][1]
    want1 = P.prf(version, alg, master, b"client finished", th(allmsgs), 12)
    want2 = P.prf(version, alg, master, b"server finished",
                  th(allmsgs + [fin1]), 12)
    I.check(seq_eq(fin1[4:], want1), "client-finished-is-rfc-value")
    I.check(seq_eq(fin2[4:], want2), "server-finished-is-rfc-value")
    # exporter (RFC 5705)
    ea = c.keyingMaterialExporter(bytearray(b"EXPORTER-test"), 24)
    eb = s.keyingMaterialExporter(bytearray(b"EXPORTER-test"), 24)
    I.check(seq_eq(list(ea), list(eb)), "exported-keying-material-agreed")
    I.check(seq_eq(list(ea), P.prf(version, alg, master, b"EXPORTER-test",
                                   cr + sr, 24)),
            "exported-keying-material-is-rfc5705-value")
    for src, dst, msg in ((c, s, b"ping"), (s, c, b"pong!")):
        for r in src.writeAsync(bytearray(msg)):
            pass
        got = None
        for r in dst.readAsync(max=16, min=len(msg)):
            if r in (0, 1) and isinstance(r, int):
                break
            got = r
        I.check(got is not None and bytes(got) == msg,
                "application-data-delivered-intact",
                detail=lambda: dict(got=repr(got)))
    I.check(P.fp(cs.serverCertChain) == P.fp(sc.srv_chain) and
            P.fp(ss.serverCertChain) == P.fp(sc.srv_chain),
            "server-chain-agreed")


# ---------------------------------------------------------------------------
# C03.8  negotiated extras between live endpoints: ALPN, SNI, record limits
# ---------------------------------------------------------------------------

def _shapes_c03_8(tier):
    out = []
    for ver in ("tls13", "tls12", "tls10"):
        for alpn in ("overlap", "server-prefers-other", "disjoint", "none",
                     "client-none"):
            out.append(dict(ver=ver, alpn=alpn))
        # heartbeat: offered by the client (default), declined / accepted
        for hb in ("server-declines", "client-declines", "both"):
            out.append(dict(ver=ver, alpn="none", heartbeat=hb))
    return out


@obligation("C03.8", _shapes_c03_8,
            functions=PAIR_FUNCS + PAIR12_FUNCS,
            assumes=P.PAIR_ASSUMES + [
                "both record_size_limit settings are symbolic integers in "
                "their documented domain [64, 2^14+1]; client ALPN list "
                "(h2, http/1.1), server list per shape; SNI host.example; "
                "TLS 1.3 / TLS 1.2 ECDHE_RSA GCM / TLS 1.0 ECDHE_RSA CBC"],
            patches=_pair12_patches, max_paths=400, timeout=(600, 1800))
def c03_8(I, shape):
    """after completion both ends hold the same ALPN protocol (one both
    listed, the client's first choice among the server's), the same server
    name, and dual record size limits (what one may send is what the other
    accepts) inside both settings; disjoint ALPN lists end in an alert"""
    ver = shape["ver"]
    if ver == "tls13":
        cset, sset = P.settings13(), P.settings13()
    elif ver == "tls12":
        cset, sset = P.settings12(), P.settings12()
    else:
        cset = P.settings12((3, 1), "ecdhe_rsa", "aes128", "sha")
        sset = P.settings12((3, 1), "ecdhe_rsa", "aes128", "sha")
    hb = shape.get("heartbeat")
    if hb:
        cset.use_heartbeat_extension = hb != "client-declines"
        sset.use_heartbeat_extension = hb != "server-declines"
    climit = I.int_range(64, 2 ** 14 + 1, "client_record_size_limit")
    slimit = I.int_range(64, 2 ** 14 + 1, "server_record_size_limit")
    cset.record_size_limit = climit
    sset.record_size_limit = slimit
    if ver == "tls13":
        # external PSK: the encrypted flights stay below the smallest record
        # limit, so the symbolic limits do not multiply fragmentation paths
        secret = I.bytes(32, "psk")
        for st in (cset, sset):
            st.pskConfigs = [(bytearray(b"ident"), newbuf(list(secret)),
                              "sha256")]
        sc = P.Scenario(I, PAIR_RND12, cset, sset, server_cred=None)
    else:
        sc = P.Scenario(I, PAIR_RND12, cset, sset, server_cred="rsa")
    calpn = [bytearray(b"h2"), bytearray(b"http/1.1")]
    salpn = {"overlap": [bytearray(b"h2"), bytearray(b"http/1.1")],
             "server-prefers-other": [bytearray(b"http/1.1"),
                                      bytearray(b"spdy/3")],
             "disjoint": [bytearray(b"spdy/3")],
             "none": None, "client-none": [bytearray(b"h2")]}[shape["alpn"]]
    if shape["alpn"] != "client-none":
        sc.client_kwargs["alpn"] = calpn
    sc.client_kwargs["serverName"] = "host.example"
    if salpn is not None:
        sc.server_kwargs["alpn"] = salpn
    sc.run()
    for ep, nm in ((sc.cep, "client"), (sc.sep, "server")):
        I.check(ep.crash is None, "no-raw-exception-from-the-handshake",
                detail=lambda: dict(side=nm, tb=ep.crash))
    if shape["alpn"] == "disjoint" and ver != "tls13":
        I.check(not sc.completed(sc.cep) and not sc.completed(sc.sep),
                "disjoint-alpn-lists-never-complete")
        return
    # TLS 1.3 with disjoint lists: tlslite-ng goes on without ALPN instead of
    # RFC 7301's no_application_protocol (observation, DESIGN 12); both ends
    # then hold "no protocol", which is what is checked below
    I.check(sc.both_completed(), "honest-handshake-completes",
            detail=lambda: dict(c=repr(sc.cep.error), s=repr(sc.sep.error)))
    if not sc.both_completed():
        return
    c, s = sc.c, sc.s
    want = {"overlap": bytearray(b"h2"),
            "server-prefers-other": bytearray(b"http/1.1"),
            "none": None, "client-none": None,
            "disjoint": None}[shape["alpn"]]
    I.check(c.session.appProto == s.session.appProto == want,
            "alpn-protocol-agreed-and-in-both-lists",
            detail=lambda: dict(c=repr(c.session.appProto),
                                s=repr(s.session.appProto)))
    I.check(c.session.serverName == s.session.serverName == "host.example",
            "server-name-agreed")
    if hb:
        want_hb = hb == "both"
        I.check(c.heartbeat_supported == s.heartbeat_supported == want_hb,
                "heartbeat-in-use-iff-both-sides-enabled-it",
                detail=lambda: dict(c=c.heartbeat_supported,
                                    s=s.heartbeat_supported, shape=hb))
    I.check(c._send_record_limit == s._recv_record_limit,
            "client-send-limit-is-server-receive-limit",
            detail=lambda: dict(c=repr(c._send_record_limit),
                                s=repr(s._recv_record_limit)))
    I.check(s._send_record_limit == c._recv_record_limit,
            "server-send-limit-is-client-receive-limit")
    tls13 = ver == "tls13"
    I.check(AND(c._recv_record_limit <= climit - (1 if tls13 else 0),
                s._recv_record_limit <= slimit - (1 if tls13 else 0),
                c._recv_record_limit <= 2 ** 14,
                s._recv_record_limit <= 2 ** 14),
            "receive-limits-inside-own-settings")
    I.check(AND(c._recv_record_limit >= 63, s._recv_record_limit >= 63),
            "limits-not-below-the-protocol-minimum")


# ---------------------------------------------------------------------------
# C03.9  the peer's certificate key lies inside the own settings
# ---------------------------------------------------------------------------
from models.conn import conn_proxies, make_conn
from tlslite.errors import TLSLocalAlert as _TLSLocalAlert


def _shapes_c03_9(tier):
    out = []
    for version in ((3, 3), (3, 4)):
        for ct in ("rsa", "rsa-pss", "dsa", "ecdsa", "Ed25519"):
            out.append(dict(version=list(version), cert_type=ct))
    return out


class _PolicyKey(object):
    def __init__(self, bits, curve=None):
        self.bits = bits
        self.curve_name = curve

    def __len__(self):
        return self.bits


class _PolicyChain(object):
    def __init__(self, cert_type, key):
        class _C(object):
            certAlg = cert_type
        self.x509List = [_C()]
        self.key = key

    def getEndEntityPublicKey(self):
        return self.key

    def getNumCerts(self):
        return 1


@obligation("C03.9", _shapes_c03_9,
            functions=["tlslite.tlsconnection:TLSConnection."
                       "_check_certchain_with_settings"],
            assumes=["the peer chain is a stub reporting a certificate "
                     "algorithm (per shape), a key length picked from "
                     "{512, 1023, 1024, 2048, 3072, 4096, 8192, 16385} and, "
                     "for ECDSA, a curve picked from the library's curve "
                     "names; settings.minKeySize / maxKeySize are symbolic "
                     "integers with 512 <= min <= max <= 16384; eccCurves, "
                     "ecdsaSigHashes and more_sig_schemes are picked "
                     "sub-lists"],
            patches=lambda s: (conn_proxies(), []), max_paths=4000)
def c03_9(I, shape):
    """a peer certificate is accepted exactly when its key size lies inside
    [minKeySize, maxKeySize] (RSA, RSA-PSS, DSA), its curve is enabled
    (ECDSA) or its algorithm is enabled (EdDSA); otherwise a fatal alert is
    sent"""
    version = tuple(shape["version"])
    ct = shape["cert_type"]
    st = HandshakeSettings().validate()
    lo = I.int_range(512, 16384, "minKeySize")
    hi = I.int_range(512, 16384, "maxKeySize")
    assume(lo <= hi)
    st.minKeySize, st.maxKeySize = lo, hi
    bits = I.pick([512, 1023, 1024, 2048, 3072, 4096, 8192, 16385], "bits")
    curve = None
    if ct == "ecdsa":
        curve = I.pick(["secp256r1", "secp384r1", "secp521r1", "secp224r1",
                        "brainpoolP256r1", "NIST256p"], "curve")
        st.eccCurves = I.pick([["secp256r1"], ["secp384r1", "secp521r1"],
                               ["secp256r1", "secp384r1", "secp521r1",
                                "brainpoolP256r1"]], "eccCurves")
        st.ecdsaSigHashes = I.pick([["sha256"], ["sha384", "sha512"],
                                    ["sha256", "sha384", "sha512"]],
                                   "ecdsaSigHashes")
    if ct == "Ed25519":
        st.more_sig_schemes = I.pick([[], ["Ed25519"], ["Ed448"]],
                                     "more_sig_schemes")
    conn, sock = make_conn(version, True, [])
    chain = _PolicyChain(ct, _PolicyKey(bits, curve))
    try:
        res = None
        for res in conn._check_certchain_with_settings(chain, st):
            pass
        ok = True
    except _TLSLocalAlert as e:
        ok = False
        alert = e
    sent = split_records(sock.out)
    if not ok:
        I.check(len(sent) == 1 and sent[0][0] == ContentType.alert,
                "refusal-sends-a-fatal-alert")
    if ct in ("rsa", "rsa-pss", "dsa"):
        I.check(IFF(ok, AND(lo <= bits, bits <= hi)),
                "key-size-accepted-iff-inside-min-max",
                detail=lambda: dict(bits=bits, cert_type=ct))
    elif ct == "ecdsa":
        name = "secp256r1" if curve == "NIST256p" else curve
        if version <= (3, 3):
            I.check(ok == (name in st.eccCurves),
                    "curve-accepted-iff-enabled",
                    detail=lambda: dict(curve=curve, enabled=st.eccCurves))
        else:
            need = {"secp256r1": "sha256", "secp384r1": "sha384",
                    "secp521r1": "sha512",
                    "brainpoolP256r1": "sha256"}.get(name)
            I.check(ok == (need is not None and need in st.ecdsaSigHashes),
                    "tls13-curve-accepted-iff-its-hash-enabled",
                    detail=lambda: dict(curve=curve,
                                        hashes=st.ecdsaSigHashes))
    else:
        I.check(ok == ("Ed25519" in st.more_sig_schemes and
                       version >= (3, 3)),
                "eddsa-accepted-iff-enabled")
