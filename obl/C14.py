"""C14 - results do not depend on how the transport chunks, delays or blocks."""
import ast
import errno
import socket

from lib.framework import obligation
from symx.core import (SymInt, SymBool, SymBytes, AND, OR, NOT, IFF, IMPLIES,
                       seq_eq, assume, is_concrete_mode, ite, PathAbort,
                       Unsupported)
from models.fixtures import newbuf, rl_proxies
from models.conn import (conn_proxies, CONN_ASSUMES, make_conn, record,
                         FaultSock, split_records)

import tlslite.recordlayer as rl
import tlslite.tlsrecordlayer as trl
import tlslite.defragmenter as dfr
from tlslite.defragmenter import Defragmenter
from tlslite.constants import ContentType, HandshakeType, AlertDescription
from tlslite.errors import (TLSAbruptCloseError, TLSAlert, TLSLocalAlert,
                            TLSRemoteAlert)


class SchedSock(object):
    """socket whose recv()/send() behaviour is chosen, call by call, by
    symbolic selectors: deliver k <= want bytes, accept j <= len bytes, or
    would-block (bounded number of times)"""

    def __init__(self, I, stream, max_blocks=2, eof=True, coarse=False):
        self.I = I
        # coarse: chunk sizes restricted to {1, 2, everything asked for}
        self.coarse = coarse
        self.inp = list(stream)
        self.out = []
        self.blocks = 0
        self.max_blocks = max_blocks
        self.calls = 0
        self.after_eof = 0
        self.closed = False

    def _maybe_block(self):
        if self.blocks < self.max_blocks and \
                self.I.pick([False, True], "block"):
            self.blocks += 1
            raise socket.error(errno.EWOULDBLOCK, "would block")

    def recv(self, n):
        self.calls += 1
        n = int(n)
        if n <= 0:
            raise AssertionError("recv(%d)" % n)
        self._maybe_block()
        if not self.inp:
            self.after_eof += 1
            if self.after_eof > 6:
                raise AssertionError("spinning on a closed transport")
            return newbuf()
        top = min(n, len(self.inp))
        if self.coarse:
            k = int(self.I.pick(sorted(set([1, min(2, top), top])), "chunk"))
        else:
            k = int(self.I.int_range(1, top, "chunk"))
        r = self.inp[:k]
        self.inp = self.inp[k:]
        return newbuf(r)

    def send(self, d):
        self.calls += 1
        self._maybe_block()
        if len(d) == 0:
            return 0
        j = int(self.I.int_range(1, len(d), "accepted"))
        self.out += list(d)[:j]
        return j

    def sendall(self, d):
        self.out += list(d)

    def close(self):
        self.closed = True

    def shutdown(self, how):
        pass


def _shapes_c14_1(tier):
    out = []
    for length in ((1, 2, 3, 5) if tier == "quick" else (0, 1, 2, 3, 4, 5, 6)):
        for extra in (0, 2):
            out.append(dict(op="recv", length=length, extra=extra))
        if length > 0:
            out.append(dict(op="recv-short", length=length,
                            have=length - 1))
    for n in ((1, 3, 4) if tier == "quick" else (0, 1, 2, 3, 4, 5, 6)):
        out.append(dict(op="send", length=n))
    return out


@obligation("C14.1", _shapes_c14_1,
            functions=["tlslite.recordlayer:RecordSocket._sockRecvAll",
                       "tlslite.recordlayer:RecordSocket._sockSendAll"],
            assumes=["socket stub: every recv()/send() call either would-"
                     "blocks (at most twice per run) or transfers a symbolic "
                     "number 1..n of bytes; stream contents symbolic; stream "
                     "longer than, equal to or one byte shorter than the "
                     "requested length (EOF)"],
            patches=lambda s: (rl_proxies(), []), max_paths=30000,
            also=("C08", "C17"))
def c14_1(I, shape):
    """_sockRecvAll returns exactly the next `length` bytes under every
    schedule, yields 0 exactly on would-block, reports EOF as
    TLSAbruptCloseError and never spins; _sockSendAll sends everything once"""
    length = shape["length"]
    if shape["op"] == "send":
        data = I.bytes(length, "d")
        s = SchedSock(I, [])
        rs = rl.RecordSocket(s)
        yields = []
        for r in rs._sockSendAll(newbuf(list(data))):
            yields.append(r)
            if len(yields) > 40:
                I.fail("send-does-not-terminate")
                return
        I.check(len(s.out) == length and bool(seq_eq(s.out, data)),
                "everything-sent-exactly-once-in-order")
        I.check(all(y == 1 for y in yields), "send-yields-only-1")
        return
    have = shape.get("have", length + shape.get("extra", 0))
    stream = I.bytes(have, "s")
    s = SchedSock(I, stream)
    rs = rl.RecordSocket(s)
    result = None
    zeros = 0
    try:
        steps = 0
        for r in rs._sockRecvAll(length):
            steps += 1
            if steps > 60:
                I.fail("recv-does-not-terminate")
                return
            if isinstance(r, int) and not isinstance(r, bool):
                I.check(r == 0, "recv-yields-only-0-while-waiting")
                zeros += 1
                continue
            result = r
            break
        exc = None
    except TLSAbruptCloseError as e:
        exc = e
    except AssertionError as e:
        I.fail("no-progress: %s" % e)
        return
    if have < length:
        I.check(exc is not None, "eof-before-length-is-abrupt-close")
        return
    I.check(exc is None and result is not None, "complete-read-succeeds")
    I.check(len(result) == length and bool(seq_eq(result, stream[:length])),
            "exactly-the-next-length-bytes")
    I.check(len(s.inp) == have - length, "nothing-read-beyond-length")
    I.check(zeros == s.blocks, "one-0-per-would-block")


# ---------------------------------------------------------------------------
# C14.2  defragmenter: message sequence independent of record boundaries
# ---------------------------------------------------------------------------

def _shapes_c14_2(tier):
    out = []
    for l1, l2 in (((0, 1), (2, 0), (1, 2)) if tier == "quick"
                   else ((0, 0), (0, 1), (2, 0), (1, 2), (3, 3))):
        out.append(dict(l1=l1, l2=l2, cuts=2))
        out.append(dict(l1=l1, l2=l2, cuts=3))
    return out


@obligation("C14.2", _shapes_c14_2,
            functions=["tlslite.defragmenter:Defragmenter.add_data",
                       "tlslite.defragmenter:Defragmenter.get_message",
                       "tlslite.defragmenter:Defragmenter.add_dynamic_size",
                       "tlslite.defragmenter:Defragmenter.add_static_size",
                       "tlslite.defragmenter:Defragmenter.is_empty"],
            assumes=["stream = two handshake messages with symbolic type and "
                     "body bytes (enumerated lengths) cut into 2-3 fragments "
                     "at symbolic positions; an alert record may arrive "
                     "between fragments"],
            patches=lambda s: (conn_proxies(), []), max_paths=30000)
def c14_2(I, shape):
    """the messages delivered do not depend on where the stream was cut"""
    l1, l2 = shape["l1"], shape["l2"]
    m1 = [I.byte("t1"), 0, 0, l1] + list(I.bytes(l1, "b1"))
    m2 = [I.byte("t2"), 0, 0, l2] + list(I.bytes(l2, "b2"))
    stream = m1 + m2
    n = len(stream)
    cuts = sorted(int(I.int_range(0, n, "cut")) for _ in range(shape["cuts"]
                                                               - 1))
    pieces = []
    prev = 0
    for c in cuts + [n]:
        pieces.append(stream[prev:c])
        prev = c
    d = Defragmenter()
    d.add_static_size(ContentType.change_cipher_spec, 1)
    d.add_static_size(ContentType.alert, 2)
    d.add_dynamic_size(ContentType.handshake, 1, 3)
    got = []
    alert_at = int(I.int_range(0, len(pieces), "alert_at"))
    for i, p in enumerate(pieces):
        if i == alert_at:
            d.add_data(ContentType.alert, newbuf([2, 40]))
        d.add_data(ContentType.handshake, newbuf(p))
        while True:
            m = d.get_message()
            if m is None:
                break
            got.append(m)
    hs = [list(m[1]) for m in got if m[0] == ContentType.handshake]
    al = [list(m[1]) for m in got if m[0] == ContentType.alert]
    I.check(len(hs) == 2 and bool(seq_eq(hs[0], m1)) and
            bool(seq_eq(hs[1], m2)),
            "same-messages-whatever-the-fragmentation")
    I.check(al == ([[2, 40]] if alert_at < len(pieces) else []),
            "alert-delivered-once")
    I.check(d.is_empty(), "nothing-left-behind")


# ---------------------------------------------------------------------------
# C14.3  connection level: read() outcome independent of the recv schedule
# ---------------------------------------------------------------------------

def _shapes_c14_3(tier):
    out = []
    for ver in ((3, 3), (3, 4)):
        for end in ("data", "alert", "eof"):
            out.append(dict(version=list(ver), end=end))
    return out


@obligation("C14.3", _shapes_c14_3,
            functions=["tlslite.tlsrecordlayer:TLSRecordLayer.readAsync",
                       "tlslite.tlsrecordlayer:TLSRecordLayer._getMsg",
                       "tlslite.tlsrecordlayer:TLSRecordLayer._getNextRecord",
                       "tlslite.recordlayer:RecordLayer.recvRecord",
                       "tlslite.recordlayer:RecordSocket.recv",
                       "tlslite.recordlayer:RecordSocket._sockRecvAll",
                       "tlslite.bufferedsocket:BufferedSocket.recv"],
            assumes=CONN_ASSUMES + [
                "wire = a 2-byte application-data record split over two "
                "records' worth of bytes + (more data | alert | EOF); the "
                "transport delivers it under every schedule of chunk sizes "
                "drawn from {1, 2, all that was asked for} with at most one "
                "would-block; reference = one-shot delivery"],
            patches=lambda s: (conn_proxies(), []), max_paths=30000,
            timeout=(300, 1200))
def c14_3(I, shape):
    """read() gives the same outcome as with one-shot delivery"""
    version = tuple(shape["version"])
    d1 = I.bytes(2, "d1")
    d2 = I.bytes(1, "d2")
    wire = record(ContentType.application_data, d1)
    if shape["end"] == "data":
        wire += record(ContentType.application_data, d2)
    elif shape["end"] == "alert":
        wire += record(ContentType.alert, [2, AlertDescription.
                                           handshake_failure])
    outcomes = []
    for mode in ("oneshot", "scheduled"):
        if mode == "oneshot":
            conn, sock = make_conn(version, True, wire)
        else:
            conn, sock = make_conn(version, True,
                                   sock=SchedSock(I, wire, max_blocks=1,
                                                  coarse=True))
        res = []
        zeros = 0
        try:
            for _call in range(2):
                val = None
                for r in conn.readAsync(max=None, min=2 if _call == 0 else 1):
                    if isinstance(r, int) and not isinstance(r, bool):
                        zeros += 1
                        if zeros > 40:
                            I.fail("read-does-not-terminate")
                            return
                        continue
                    val = r
                res.append(("data", list(val)))
        except TLSRemoteAlert as e:
            res.append(("remote-alert", int(e.description)))
        except TLSAbruptCloseError:
            res.append(("abrupt",))
        except AssertionError as e:
            I.fail("no-progress: %s" % e)
            return
        outcomes.append((res, conn.closed))
    (r1, c1), (r2, c2) = outcomes
    same = len(r1) == len(r2) and c1 == c2
    conds = []
    if same:
        for a, b in zip(r1, r2):
            if a[0] != b[0]:
                same = False
                break
            if a[0] == "data":
                if len(a[1]) != len(b[1]):
                    same = False
                    break
                conds.append(seq_eq(a[1], b[1]))
            elif a != b:
                same = False
                break
    I.check(AND(same, AND(conds)) if conds else same,
            "outcome-independent-of-delivery-schedule",
            detail=lambda: dict(oneshot=repr(r1), scheduled=repr(r2)))


# ---------------------------------------------------------------------------
# C14.4  blocking API = exhaust the async generator (AST, regenerated)
# ---------------------------------------------------------------------------

PAIRS = [("tlslite.tlsrecordlayer", "TLSRecordLayer", "read", "readAsync"),
         ("tlslite.tlsrecordlayer", "TLSRecordLayer", "write", "writeAsync"),
         ("tlslite.tlsrecordlayer", "TLSRecordLayer", "close",
          "_decrefAsync")]


@obligation("C14.4", lambda tier: [dict(i=i) for i in range(len(PAIRS))] +
            [dict(i=-1)],
            functions=["tlslite.tlsrecordlayer:TLSRecordLayer.read",
                       "tlslite.tlsrecordlayer:TLSRecordLayer.write",
                       "tlslite.tlsrecordlayer:TLSRecordLayer.close",
                       "tlslite.integration.asyncstatemachine:"
                       "AsyncStateMachine._checkAssert"],
            assumes=["pattern match on the AST of the current source: the "
                     "blocking method must be exactly 'for r in self.<async>"
                     "(same args): pass' (+ return r); anything else is "
                     "inconclusive"])
def c14_4(I, shape):
    """blocking calls are the async generators run to exhaustion; the async
    state machine admits at most one active operation"""
    import importlib
    import inspect
    import textwrap
    if shape["i"] < 0:
        from tlslite.integration.asyncstatemachine import AsyncStateMachine
        flags = [I.pick([None, object()], "op") for _ in range(4)]
        result = I.pick([None, 0, 1, 2], "result")
        m = AsyncStateMachine()
        m.handshaker, m.closer, m.reader, m.writer = flags
        m.result = result
        active = sum(1 for f in flags if f)
        try:
            m._checkAssert()
            ok = True
        except AssertionError:
            ok = False
        want = (result is None and active == 0) or \
            (result in (0, 1) and active == 1)
        I.check(ok == want, "at-most-one-active-operation")
        return
    modname, cls, sync, asyn = PAIRS[shape["i"]]
    mod = importlib.import_module(modname)
    fn = getattr(getattr(mod, cls), sync)
    tree = ast.parse(textwrap.dedent(inspect.getsource(fn)))
    body = [n for n in tree.body[0].body
            if not (isinstance(n, ast.Expr) and
                    isinstance(getattr(n, "value", None), ast.Constant))]
    # close(): 'if not self.closed:' wrapper
    if len(body) == 1 and isinstance(body[0], ast.If):
        body = body[0].body
    ok = len(body) in (1, 2) and isinstance(body[0], ast.For)
    if ok:
        f = body[0]
        call = f.iter
        ok = isinstance(call, ast.Call) and \
            isinstance(call.func, ast.Attribute) and \
            call.func.attr == asyn and \
            isinstance(call.func.value, ast.Name) and \
            call.func.value.id == "self" and \
            len(f.body) == 1 and isinstance(f.body[0], ast.Pass)
        if ok:
            params = [a.arg for a in tree.body[0].args.args[1:]]
            passed = [ast.unparse(a) for a in call.args]
            ok = passed == params
        if ok and len(body) == 2:
            ok = isinstance(body[1], ast.Return) and \
                isinstance(body[1].value, ast.Name) and \
                body[1].value.id == f.target.id
    I.check(ok, "blocking-%s-is-exhaust-%s" % (sync, asyn))


# ---------------------------------------------------------------------------
# C14.5  AsyncStateMachine drives the generators like the blocking calls do
# ---------------------------------------------------------------------------

def _shapes_c14_5(tier):
    out = []
    for op in ("read", "write", "close", "handshake"):
        for n in ((0, 1, 3) if tier == "quick" else (0, 1, 2, 3, 4)):
            out.append(dict(op=op, n=n))
    return out


@obligation("C14.5", _shapes_c14_5,
            functions=["tlslite.integration.asyncstatemachine:"
                       "AsyncStateMachine._doReadOp",
                       "tlslite.integration.asyncstatemachine:"
                       "AsyncStateMachine._doWriteOp",
                       "tlslite.integration.asyncstatemachine:"
                       "AsyncStateMachine._doCloseOp",
                       "tlslite.integration.asyncstatemachine:"
                       "AsyncStateMachine._doHandshakeOp",
                       "tlslite.integration.asyncstatemachine:"
                       "AsyncStateMachine.inReadEvent",
                       "tlslite.integration.asyncstatemachine:"
                       "AsyncStateMachine.inWriteEvent",
                       "tlslite.integration.asyncstatemachine:"
                       "AsyncStateMachine.wantsReadEvent",
                       "tlslite.integration.asyncstatemachine:"
                       "AsyncStateMachine.wantsWriteEvent"],
            assumes=["the TLS connection is a stub whose *Async generators "
                     "yield a symbolic sequence of n would-block markers "
                     "(each 0 = wants read or 1 = wants write) before "
                     "finishing; the caller delivers the event the machine "
                     "asks for"])
def c14_5(I, shape):
    """through AsyncStateMachine an operation completes exactly when its
    generator does, with the generator's result, after exactly n events"""
    from tlslite.integration.asyncstatemachine import AsyncStateMachine
    n, op = shape["n"], shape["op"]
    marks = [I.pick([0, 1], "mark") for _ in range(n)]
    payload = I.bytes(2, "data")
    done = []

    class Conn(object):
        def _gen(self, final):
            for m in marks:
                yield m
            if final is not None:
                yield final
            done.append(True)

        def readAsync(self, *a):
            return self._gen(payload)

        def writeAsync(self, b):
            return self._gen(None)

        def closeAsync(self):
            return self._gen(None)

    events = []

    class M(AsyncStateMachine):
        def outReadEvent(self, b):
            events.append(("read", b))

        def outWriteEvent(self):
            events.append(("write",))

        def outCloseEvent(self):
            events.append(("close",))

        def outConnectEvent(self):
            events.append(("connect",))
    m = M()
    m.tlsConnection = Conn()
    steps = 0
    if op == "write":
        m.setWriteOp(b"xy")
    elif op == "close":
        m.setCloseOp()
    elif op == "handshake":
        m.setHandshakeOp(m.tlsConnection._gen(None))
    else:
        m.inReadEvent()
    for k in range(n):
        # the machine must ask for exactly the event the generator needs
        I.check(m.wantsReadEvent() == (marks[k] == 0) and
                m.wantsWriteEvent() == (marks[k] == 1),
                "asks-for-the-event-the-generator-needs")
        I.check(events == [], "no-completion-before-the-generator-finishes")
        if marks[k] == 0:
            m.inReadEvent()
        else:
            m.inWriteEvent()
    want = {"read": [("read", payload)], "write": [], "close": [("close",)],
            "handshake": [("connect",)]}[op]
    if op == "read":
        I.check(len(events) == 1 and events[0][0] == "read" and
                bool(seq_eq(events[0][1], payload)),
                "read-completes-with-the-generators-result")
    else:
        I.check(events == want, "completion-event-exactly-once")
    I.check(m.result is None and not (m.reader or m.writer or m.closer or
                                      m.handshaker),
            "idle-after-completion")


@obligation("C14.6", lambda tier: [dict()],
            functions=["tlslite.tlsconnection:TLSConnection.handshakeServer",
                       "tlslite.tlsconnection:TLSConnection."
                       "handshakeClientCert",
                       "tlslite.tlsconnection:TLSConnection."
                       "handshakeClientSRP",
                       "tlslite.tlsconnection:TLSConnection."
                       "handshakeClientAnonymous"],
            assumes=["AST of the current source: each blocking handshake "
                     "entry point must forward every one of its parameters, "
                     "under the same name, to the generator it exhausts"])
def c14_6(I, shape):
    """blocking handshake entry points pass all their arguments on"""
    import inspect
    import textwrap
    import tlslite.tlsconnection as tcm
    src = textwrap.dedent(inspect.getsource(tcm.TLSConnection.handshakeServer))
    fn = ast.parse(src).body[0]
    params = [a.arg for a in fn.args.args[1:]]
    calls = [n for n in ast.walk(fn) if isinstance(n, ast.Call) and
             isinstance(n.func, ast.Attribute) and
             n.func.attr == "handshakeServerAsync"]
    ok = len(calls) == 1
    if ok:
        c = calls[0]
        passed = set()
        for i, a in enumerate(c.args):
            if isinstance(a, ast.Name):
                passed.add(a.id)
        for kw in c.keywords:
            if isinstance(kw.value, ast.Name) and kw.arg == kw.value.id:
                passed.add(kw.arg)
        ok = set(params) <= passed
    I.check(ok, "handshakeServer-forwards-every-parameter",
            detail=lambda: dict(params=params))
    # client entry points: async_ flag selects generator vs exhaustion
    for name in ("handshakeClientCert", "handshakeClientSRP",
                 "handshakeClientAnonymous"):
        f = getattr(tcm.TLSConnection, name)
        src = textwrap.dedent(inspect.getsource(f))
        fn = ast.parse(src).body[0]
        params = [a.arg for a in fn.args.args[1:] if a.arg != "async_"]
        helper = [n for n in ast.walk(fn) if isinstance(n, ast.Call) and
                  isinstance(n.func, ast.Attribute) and
                  n.func.attr == "_handshakeClientAsync"]
        ok = len(helper) == 1
        used = set(n.id for n in ast.walk(fn) if isinstance(n, ast.Name))
        ok = ok and set(params) <= used
        I.check(ok, "%s-uses-every-parameter" % name)
