"""F14 (C03): a server configured with maxVersion=(3,1) negotiated TLS 1.1/1.2
with a client that sends supported_versions: the server picks the first of
settings.versions the client lists, and validate() only strips (3,4) from that
list; likewise a ClientHello with legacy_version 0x0304 and no
supported_versions was answered with TLS 1.2 by a server whose minVersion is
(3,4).  Drives the real _serverGetClientHello.  Exit 1 if present."""
import sys
sys.path.insert(0, "/repo")
sys.path.insert(0, "/verif")
from models.hello import (server_conn, run_server_hello, ch_bytes,
                          std_extensions, hello_stubs)
from models.conn import record
from lib.framework import patched
from symx.core import Ctx, ConcreteCtx
from tlslite.handshakesettings import HandshakeSettings

Ctx.cur = ConcreteCtx()
bad = []
with patched(hello_stubs()):
    s = HandshakeSettings()
    s.minVersion = s.maxVersion = (3, 1)
    s = s.validate()
    exts = std_extensions(True, versions=[(3, 3), (3, 2)])
    out = run_server_hello(server_conn(record(22, ch_bytes(
        (3, 3), [0xc014, 0x2f], exts))), s)
    if out["kind"] == "ret":
        bad.append("maxVersion (3,1) but negotiated %s" % (out["result"][1],))
    s = HandshakeSettings()
    s.minVersion = s.maxVersion = (3, 4)
    s = s.validate()
    out = run_server_hello(server_conn(record(22, ch_bytes(
        (3, 4), [0xc02f, 0x1301], std_extensions(False)))), s)
    if out["kind"] == "ret":
        bad.append("minVersion (3,4) but negotiated %s" % (out["result"][1],))
print("\n".join(bad) or "ok")
sys.exit(1 if bad else 0)
