"""F-CONN: an established TLSConnection with null record protection.

A real TLSConnection whose public state is set the way _handshakeDone leaves it
(closed=False, _refCount=1, version, a resumable Session) but without keys
(encContext=None, macContext=None) - a state the real code has before keys are
installed and through which _getMsg, the read loop, alert handling,
defragmentation, heartbeat and post-handshake dispatch run unchanged.  The wire
is made of records with enumerated lengths and symbolic type/version/payload.
"""
import errno
import socket

from symx.core import (SymBytes, SymInt, mk_bytearray, sym_from_bytes,
                       sym_max, sym_min, sym_range, is_concrete_mode)
from models.fixtures import rl_proxies, newbuf
from models.codec_env import codec_proxies

import tlslite.tlsrecordlayer as trl
import tlslite.tlsconnection as tc
import tlslite.defragmenter as dfr
import tlslite.bufferedsocket as bsock
import tlslite.recordlayer as rl
import tlslite.handshakehashes as hh
import tlslite.session as sess_mod
from tlslite.session import Session
from tlslite.constants import CipherSuite


def _bytes_passthrough(x=b"", *a):
    """``bytes(buf)`` at the API boundary: symbolic content stays symbolic"""
    if isinstance(x, SymBytes):
        if x.is_concrete():
            return bytes(x.v)
        return x
    return bytes(x, *a)


class RecHashes(object):
    """HandshakeHashes replaced by a recorder of what is fed to it"""

    def __init__(self):
        self.fed = []

    def update(self, data):
        self.fed.append(list(data))

    def copy(self):
        r = RecHashes()
        r.fed = [list(x) for x in self.fed]
        return r

    def digest(self, name=None):
        raise AssertionError("transcript digest requested in F-CONN")


def conn_proxies():
    p = rl_proxies() + codec_proxies()
    p += [(trl, "bytearray", mk_bytearray),
          (tc, "bytearray", mk_bytearray),
          (dfr, "bytearray", mk_bytearray),
          (bsock, "bytearray", mk_bytearray),
          (bsock, "max", sym_max),
          (trl, "bytes", _bytes_passthrough),
          (trl, "range", sym_range)]
    return p


CONN_ASSUMES = [
    "F-CONN: real TLSConnection over an in-memory socket, state set as "
    "_handshakeDone leaves it, NULL record protection (no keys): records are "
    "plaintext; record lengths are enumerated, type/version/payload symbolic",
    "HandshakeHashes replaced by a recorder (transcript content is C04's "
    "subject)",
    "proxies: bytearray->SymBytes in tlsrecordlayer/tlsconnection/"
    "defragmenter/bufferedsocket, bytes()->pass-through at the API boundary, "
    "max->ite, plus the record-layer and codec proxies",
]


class FaultSock(object):
    """in-memory socket with an optional fault schedule.

    inp: bytes to serve; when exhausted recv() returns b'' (EOF) unless
    eof_error is set.  send_fail_at: index of the send() call that raises."""

    def __init__(self, inp=(), send_fail_at=None, recv_chunks=None,
                 block_when_empty=False):
        self.block_when_empty = block_when_empty
        self.inp = newbuf(list(inp))
        self.out = newbuf()
        self.sent_records = []
        self.closed = False
        self.sends = 0
        self.recvs = 0
        self.send_fail_at = send_fail_at
        self.recv_after_eof = 0

    def _send(self, d):
        if self.send_fail_at is not None and self.sends == self.send_fail_at:
            self.sends += 1
            raise socket.error(errno.EPIPE, "broken pipe (injected)")
        self.sends += 1
        self.out += d
        return len(d)

    def send(self, d):
        return self._send(d)

    def sendall(self, d):
        self._send(d)

    def recv(self, n):
        self.recvs += 1
        n = int(n)
        if len(self.inp) == 0 and self.block_when_empty:
            raise socket.error(errno.EWOULDBLOCK, "would block")
        if len(self.inp) == 0:
            self.recv_after_eof += 1
            if self.recv_after_eof > 8:
                raise AssertionError("spinning on a closed transport")
        r = self.inp[:n]
        self.inp = self.inp[n:]
        return r

    def close(self):
        self.closed = True

    def shutdown(self, how):
        pass

    def settimeout(self, t):
        pass

    def gettimeout(self):
        return None


def record(ctype, payload, version=(3, 3)):
    """one TLSPlaintext record with a concrete length field"""
    payload = list(payload)
    n = len(payload)
    return [ctype, version[0], version[1], n >> 8, n & 0xff] + payload


def make_conn(version, client, wire=(), sock=None, session=True):
    s = sock or FaultSock(wire)
    conn = tc.TLSConnection(s)
    conn._handshake_hash = RecHashes()
    conn._client = client
    conn.version = version
    if version > (3, 3):
        conn._recordLayer.tls13record = True
    conn.closed = False
    conn._refCount = 1
    if session:
        se = Session()
        se.resumable = True
        se.cipherSuite = CipherSuite.TLS_AES_128_GCM_SHA256 \
            if version > (3, 3) else \
            CipherSuite.TLS_RSA_WITH_AES_128_GCM_SHA256
        se.cl_app_secret = bytearray(32)
        se.sr_app_secret = bytearray(32)
        conn.session = se
    return conn, s


def split_records(out):
    """parse what the connection wrote (null protection) into records"""
    out = list(out)
    recs = []
    i = 0
    while i + 5 <= len(out):
        n = (int(out[i + 3]) << 8) | int(out[i + 4]) \
            if isinstance(out[i + 3], int) and isinstance(out[i + 4], int) \
            else None
        if n is None:
            break
        recs.append((out[i], (out[i + 1], out[i + 2]), out[i + 5:i + 5 + n]))
        i += 5 + n
    return recs
