"""C11 - RSA key transport gives an attacker no padding oracle."""
from lib.framework import obligation
from symx.core import (SymInt, SymBool, SymBytes, AND, OR, NOT, IFF, IMPLIES,
                       seq_eq, is_concrete_mode, assume, ite, mk_bytearray,
                       sym_from_bytes, sym_range, sym_min, sym_max)
from symx.shims import sym_int_to_bytes, sym_pack
from models.fixtures import newbuf
from models.hashmodel import (HASHLIB, HMACMOD, hash_bytes, hmac_bytes,
                              HASH_ASSUMES)

import tlslite.utils.rsakey as rk
import tlslite.utils.cryptomath as cryptomath
import tlslite.utils.constanttime as ct
import tlslite.keyexchange as kx
from tlslite.utils.rsakey import RSAKey


def _ident(x):
    return x


def _tripwire(n):
    raise AssertionError("randomness consulted by a function that must be "
                         "deterministic")


def _proxies(shape):
    return ([(rk, "bytearray", mk_bytearray),
             (cryptomath, "bytearray", mk_bytearray),
             (cryptomath, "bytes_to_int", sym_from_bytes),
             (cryptomath, "int_to_bytes", sym_int_to_bytes),
             (cryptomath, "compatHMAC", _ident),
             (cryptomath, "compat26Str", _ident),
             (rk, "zip", zip)],
            [(cryptomath, "hmac", HMACMOD), (cryptomath, "hashlib", HASHLIB),
             (rk, "getRandomBytes", _tripwire)])


class StubKey(RSAKey):
    """RSAKey whose private operation returns an arbitrary integer < n: the
    obligation quantifies over decrypted encoded messages EM"""

    def __init__(self, k, em_int):
        self.n = (1 << (8 * k)) - 159
        self.e = 65537
        self.d = 0x1234567
        self.key_type = "rsa"
        self._em = em_int
        self.calls = 0

    def hasPrivateKey(self):
        return True

    def _rawPrivateKeyOp(self, m):
        self.calls += 1
        return self._em


def dec_prf(kdk, label, nbytes):
    out = []
    it = 0
    while len(out) < nbytes:
        out += list(hmac_bytes("sha256", kdk,
                               [it >> 8, it & 0xff] + list(label) +
                               [(8 * nbytes) >> 8, (8 * nbytes) & 0xff]))
        it += 1
    return out[:nbytes]


def _shapes_c11_1(tier):
    return [dict(k=k) for k in ((16, 32, 48) if tier == "quick"
                                else (11, 12, 16, 24, 32, 48, 64))] + \
        [dict(k=32, public_invalid=True), dict(k=32, wrong_len=31),
         dict(k=32, wrong_len=33)]


@obligation("C11.1", _shapes_c11_1,
            functions=["tlslite.utils.rsakey:RSAKey.decrypt",
                       "tlslite.utils.rsakey:RSAKey._dec_prf",
                       "tlslite.utils.rsakey:RSAKey._raw_private_key_op_bytes",
                       "tlslite.utils.constanttime:ct_lt_u32",
                       "tlslite.utils.constanttime:ct_neq_u32",
                       "tlslite.utils.constanttime:ct_isnonzero_u32",
                       "tlslite.utils.constanttime:ct_lsb_prop_u16",
                       "tlslite.utils.constanttime:ct_lsb_prop_u8"],
            assumes=HASH_ASSUMES + [
                "the private-key operation returns an arbitrary symbolic "
                "integer EM < n (k-byte modulus n = 2^(8k)-159; the value of "
                "n only matters through the public range check)",
                "getRandomBytes is a tripwire: any call fails the obligation",
                "reference: implicit rejection as described in "
                "draft-irtf-cfrg-rsa-guidance, written plainly"],
            patches=_proxies, timeout=(600, 1800), max_paths=2000)
def c11_1(I, shape):
    """decrypt is total and deterministic; real message iff padding valid,
    else the EM-independent synthetic message"""
    k = shape["k"]
    clen = shape.get("wrong_len", k)
    em = I.bytes(k, "em")
    c = I.bytes(clen, "c")
    n = (1 << (8 * k)) - 159
    em_int = sym_from_bytes(list(em)) if not is_concrete_mode() \
        else int.from_bytes(bytes(em), 'big')
    c_int = sym_from_bytes(list(c)) if not is_concrete_mode() \
        else int.from_bytes(bytes(c), 'big')
    assume(em_int < n)
    key = StubKey(k, em_int)
    if shape.get("public_invalid"):
        assume(c_int >= n)
    elif clen == k:
        assume(c_int < n)
    try:
        r = key.decrypt(newbuf(list(c)))
    except Exception as e:
        I.fail("decrypt raised %s" % type(e).__name__)
        return
    if shape.get("public_invalid") or clen != k:
        I.check(r is None and key.calls == 0,
                "publicly-invalid-ciphertext-yields-None-without-private-op")
        return
    if r is None:
        I.fail("None for a publicly valid ciphertext")
        return
    I.check(key.calls == 1, "exactly-one-private-operation")
    # --- plain reference ---
    dbytes = list((0x1234567).to_bytes(k, 'big'))
    key_hash = list(hash_bytes("sha256", dbytes))
    kdk = list(hmac_bytes("sha256", key_hash, list(c)))
    lr = dec_prf(kdk, b"length", 256)
    mr = dec_prf(kdk, b"message", k)
    max_sep = k - 10
    lmask = (1 << max_sep.bit_length()) - 1
    L = 0
    for i in range(0, 256, 2):
        cand = ((lr[i] << 8) | lr[i + 1]) & lmask
        L = ite(cand < max_sep, cand, L)
    em = list(em)
    bad_hdr = OR(em[0] != 0, em[1] != 2, OR([em[i] == 0 for i in range(2, 10)]))
    nosep = AND([em[i] != 0 for i in range(10, k)])
    bad = OR(bad_hdr, nosep)
    rl = len(r)
    alts = []
    # valid padding, separator at position sep = k - rl - 1
    sep = k - rl - 1
    if 10 <= sep < k:
        alts.append(AND(NOT(bad_hdr), em[sep] == 0,
                        AND([em[i] != 0 for i in range(10, sep)]),
                        seq_eq(r, em[sep + 1:])))
    if 0 <= rl < max_sep or (rl == 0):
        alts.append(AND(bad, L == rl, seq_eq(r, mr[k - rl:])))
    I.check(OR(alts), "decrypt-equals-implicit-rejection-spec")


def _shapes_c11_2(tier):
    out = []
    lens = (0, 1, 47, 48, 49) if tier == "quick" else list(range(0, 50)) + [64]
    for L in lens:
        for cv, sv in (((3, 3), (3, 3)), ((3, 3), (3, 1)), ((3, 1), (3, 1))):
            out.append(dict(L=L, cv=list(cv), sv=list(sv)))
    out.append(dict(L=None, cv=[3, 3], sv=[3, 3]))
    return out


@obligation("C11.2", _shapes_c11_2,
            functions=["tlslite.keyexchange:RSAKeyExchange."
                       "processClientKeyExchange"],
            assumes=["privateKey.decrypt returns arbitrary symbolic bytes of "
                     "the enumerated length, or None",
                     "getRandomBytes returns fresh symbolic bytes and counts "
                     "its calls"],
            patches=lambda shape: ([(kx, "bytearray", mk_bytearray)], []),
            also=("C08",))
def c11_2(I, shape):
    """server substitutes a random premaster for every malformation, with
    the same RNG use on every path"""
    L = shape["L"]
    cv, sv = tuple(shape["cv"]), tuple(shape["sv"])
    pm = I.bytes(L, "pm") if L is not None else None
    rnd = I.bytes(48, "rnd")
    calls = []

    def fake_random(n):
        calls.append(n)
        return newbuf(list(rnd))

    class PK(object):
        def decrypt(self, enc):
            return None if pm is None else newbuf(list(pm))

    class CH(object):
        client_version = cv

    class SH(object):
        server_version = sv

    class CKE(object):
        encryptedPreMasterSecret = bytearray(64)
    ke = kx.RSAKeyExchange(0x002f, CH(), SH(), PK())
    old = kx.getRandomBytes
    kx.getRandomBytes = fake_random
    try:
        try:
            out = ke.processClientKeyExchange(CKE())
        except Exception as e:
            I.fail("processClientKeyExchange raised %s" % type(e).__name__)
            return
    finally:
        kx.getRandomBytes = old
    I.check(calls == [48], "exactly-one-48-byte-random-on-every-path")
    I.check(len(out) == 48, "premaster-always-48-bytes")
    if L == 48:
        ok = OR(AND(pm[0] == cv[0], pm[1] == cv[1]),
                AND(pm[0] == sv[0], pm[1] == sv[1]))
        I.check(AND(IMPLIES(ok, seq_eq(out, pm)),
                    IMPLIES(NOT(ok), seq_eq(out, rnd))),
                "real-premaster-iff-length-and-version-ok")
    else:
        I.check(seq_eq(out, rnd), "random-premaster-for-malformed")


# ---------------------------------------------------------------------------
# C11.3  the server flow gives no early or distinguishable alert (live pair)
# ---------------------------------------------------------------------------
from models import pair as P
from models.hello import RSA_KEY
from obl.C05 import PAIR_RND5
from tlslite.errors import TLSLocalAlert
from tlslite.constants import AlertDescription, ContentType
from symx.core import PathAbort, Unsupported


def _patches113(shape):
    P.ModelKEX.rnd = PAIR_RND5
    return (P.pair_proxies(), P.pair12_stubs(PAIR_RND5) + P.prf_stubs())

from tlslite.errors import TLSLocalAlert
from tlslite.constants import AlertDescription, ContentType

CLASSES = ("none", "short", "long", "bad-version", "other-premaster")


def _shapes_c11_3(tier):
    out = []
    for version in ((3, 3), (3, 1)):
        for cipher, mac in (("aes128gcm", "sha"), ("aes128", "sha")):
            if version == (3, 1) and cipher == "aes128gcm":
                continue
            for cls in CLASSES:
                out.append(dict(version=list(version), cipher=cipher,
                                mac=mac, cls=cls))
    return out


class OracleKey(P.ModelKey):
    """server key whose decrypt() result is dictated by the shape"""

    def __init__(self, real, kid, cls, I):
        P.ModelKey.__init__(self, real, kid)
        self.cls = cls
        self.I = I
        self.decrypts = 0

    def decrypt(self, data):
        self.decrypts += 1
        real = P._rsa_decrypt(self, data)
        if self.cls == "none":
            return None
        if self.cls == "short":
            return newbuf(list(self.I.bytes(47, "pm")))
        if self.cls == "long":
            return newbuf(list(self.I.bytes(49, "pm")))
        if self.cls == "bad-version":
            pm = list(self.I.bytes(48, "pm"))
            assume(OR(pm[0] != 3, AND(pm[1] != real[1],
                                      pm[1] != self.srv_minor)))
            return newbuf(pm)
        pm = list(self.I.bytes(48, "pm"))
        assume(AND(pm[0] == real[0], pm[1] == real[1]))
        assume(NOT(seq_eq(pm, list(real))))
        return newbuf(pm)


@obligation("C11.3", _shapes_c11_3,
            functions=["tlslite.tlsconnection:TLSConnection."
                       "_serverCertKeyExchange",
                       "tlslite.tlsconnection:TLSConnection._serverFinished",
                       "tlslite.tlsconnection:TLSConnection._getFinished",
                       "tlslite.keyexchange:RSAKeyExchange."
                       "processClientKeyExchange"],
            assumes=P.PAIR_ASSUMES + [
                "RSA key transport between two live endpoints; the server's "
                "private-key operation returns, per shape: nothing (publicly "
                "invalid ciphertext), 47 or 49 symbolic bytes, 48 symbolic "
                "bytes with a wrong version, or 48 bytes with the right "
                "version that are not the client's premaster secret",
                "the TLS PRFs are random functions (as in C04.6); hash/HMAC/"
                "PRF collision freedom; fixed randoms"],
            patches=_patches113, max_paths=400, timeout=(600, 1800))
def c11_3(I, shape):
    """whatever the decryption of the ClientKeyExchange yields, the server
    behaves the same on the wire: it sends nothing after its ServerHelloDone
    until the client's Finished fails, and then the same fatal alert -
    padding-invalid, wrong-length, wrong-version and merely-wrong premaster
    secrets are indistinguishable"""
    from symx.uf import assume_collision_free
    version = tuple(shape["version"])
    cset = P.settings12(version, "rsa", shape["cipher"], shape["mac"])
    sset = P.settings12(version, "rsa", shape["cipher"], shape["mac"])
    okey = OracleKey(RSA_KEY, "srv", shape["cls"], I)
    okey.srv_minor = version[1]
    sc = P.Scenario(I, PAIR_RND5, cset, sset, server_cred="rsa", skey=okey,
                    intctxt=True)
    sc.run()
    assume_collision_free(["HASH_", "HMAC_", "PRF_"], ("HMAC_",), trunc=12)
    I.check(okey.decrypts == 1, "one-private-key-operation")
    I.check(sc.sep.crash is None and sc.cep.crash is None,
            "no-raw-exception-from-the-handshake",
            detail=lambda: dict(tb=sc.sep.crash or sc.cep.crash))
    I.check(not sc.completed(sc.sep), "server-does-not-complete")
    err = sc.sep.error
    I.check(isinstance(err, TLSLocalAlert) and
            err.description == AlertDescription.bad_record_mac,
            "same-alert-for-every-class-of-bad-premaster",
            detail=lambda: dict(error=repr(err), cls=shape["cls"]))
    recs = P.wire_records(sc.wire)
    srv = [(ct, len(p)) for who, ct, ver, p in recs if who == "s"]
    cli = [ct for who, ct, ver, p in recs if who == "c"]
    # server flight: ServerHello, Certificate, ServerHelloDone (one or more
    # records), then exactly one alert record - nothing in between
    alerts = [i for i, (ct, n) in enumerate(srv) if ct == ContentType.alert]
    I.check(len(alerts) == 1 and alerts[0] == len(srv) - 1,
            "alert-is-the-last-and-only-alert-record")
    hs_after = [ct for ct, n in srv[:-1] if ct != ContentType.handshake]
    I.check(hs_after == [], "nothing-but-the-hello-flight-before-the-alert")
    # the alert comes only after the client's CCS + Finished were sent
    order = [(who, ct) for who, ct, ver, p in recs]
    I.check(("s", ContentType.alert) in order, "alert-on-the-wire", detail=lambda: dict(order=order, srv=srv))
    if ("s", ContentType.alert) not in order:
        return
    ia = order.index(("s", ContentType.alert))
    before = order[:ia]
    I.check(("c", ContentType.change_cipher_spec) in before and
            before[-1][0] == "c",
            "alert-only-after-the-clients-finished")
