"""F17 (C06): a TLS <= 1.2 *server* waiting for the client's
ChangeCipherSpec/Finished accepted a NewSessionTicket handshake message from
the client (only servers may send it) and stored the ticket.  Drives the real
_getFinished on a server-side connection; calc_key is pinned so that the
Finished that follows verifies.  Exit 1 if present."""
import sys
sys.path.insert(0, "/repo")
sys.path.insert(0, "/verif")
from symx.core import Ctx, ConcreteCtx
Ctx.cur = ConcreteCtx()
from models.conn import make_conn, record
from lib.framework import patched
import tlslite.tlsconnection as tc
from tlslite.errors import TLSLocalAlert

vd = bytearray(b"\x07" * 12)
wire = record(22, [4, 0, 0, 8, 0, 0, 0, 9, 0, 2, 0xaa, 0xbb]) + \
    record(20, [1]) + record(22, [20, 0, 0, 12] + list(vd))
with patched([(tc, "calc_key", lambda *a, **k: bytearray(vd))]):
    conn, sock = make_conn((3, 3), False, wire, session=False)
    conn._changeReadState = lambda: None
    try:
        for _ in conn._getFinished(bytearray(48), 0x2f):
            pass
        print("server accepted a NewSessionTicket from the client; stored "
              "tickets:", len(conn.tls_1_0_tickets))
        sys.exit(1)
    except TLSLocalAlert as e:
        print("rejected:", e)
        sys.exit(0)
