"""Crypto models: the only stubs for primitives (DESIGN.md section 4).

All models work in both execution modes (symbolic proxies / native replay): they
are built on symx.uf.apply_uf, which is a z3 uninterpreted function during
exploration and a table read from the counterexample model during replay.
"""
import z3

from symx.core import (SymBytes, SymInt, assume, is_concrete_mode, seq_eq,
                       Unsupported, AND, OR, NOT)
from symx.uf import apply_uf, cat, _fn


def _buf():
    return bytearray() if is_concrete_mode() else SymBytes()


class StubMac(object):
    """hashlib/hmac-shaped object: digest = H_<name>(entire input).

    One uninterpreted function per (name, input length).  `name` stands for
    algorithm and key; two objects with the same name hold the same key."""

    def __init__(self, name, digest_size, block_size=64, buf=None):
        self.name = name
        self.digest_size = digest_size
        self.block_size = block_size
        self.buf = list(buf or [])
        self.log = None      # list collecting every input that was digested
        self.guard = None    # ForgeryGuard: unforgeability assumption

    def copy(self):
        m = StubMac(self.name, self.digest_size, self.block_size, self.buf)
        m.log = self.log
        m.guard = self.guard
        return m

    def update(self, d):
        self.buf += list(d)

    def digest(self):
        if self.log is not None:
            self.log.append(list(self.buf))
        t = apply_uf("H" + self.name, self.buf, self.digest_size)
        if self.guard is not None:
            self.guard.on_digest(list(self.buf), t)
        return t

    def hexdigest(self):
        raise Unsupported("hexdigest on StubMac")


class ForgeryGuard(object):
    """Unforgeability of the MAC as an assumption on the path.

    honest: list of inputs the honest peer MACed under this key.
    pool:   byte strings under the attacker's control (received wire bytes
            and everything the reader derives from them by decryption).
    For every reader-side evaluation H(x): either x is one of the honest
    inputs, or H(x) occurs nowhere in the pool (an attacker cannot exhibit a
    valid tag for a message the key holder never authenticated)."""

    def __init__(self, honest, pool):
        self.honest = honest
        self.pool = pool
        self.evaluations = 0

    def on_digest(self, x, t):
        self.evaluations += 1
        in_w = OR([seq_eq(x, w) for w in self.honest if len(w) == len(x)])
        ds = len(t)
        diffs = []
        for buf in self.pool:
            buf = list(buf)
            for j in range(0, len(buf) - ds + 1):
                diffs.append(NOT(seq_eq(buf[j:j + ds], t)))
        assume(OR(in_w, AND(diffs)))


def H(name, data, n):
    """one-shot keyed/unkeyed hash model"""
    return apply_uf("H" + name, list(data), n)


class StubBlockCipher(object):
    """CBC-mode object as tlslite sees it: length-preserving bijection per
    call, E_n / D_n with D(E(x)) == x and E(D(y)) == y instantiated at each
    use.  (Chaining across calls is part of the real cipher, checked in C09;
    here each call is an arbitrary bijection that may depend on the call
    index, which is what the record layer relies on.)"""
    isBlockCipher = True
    isAEAD = False
    implementation = "model"

    def __init__(self, keyname, block_size=16, name="aes128",
                 stateless=False, pool=None):
        self.kn = keyname
        self.block_size = block_size
        self.name = name
        self.ecalls = 0
        self.dcalls = 0
        # stateless: one bijection for all calls (the weakest model of CBC
        # chaining: reordered / dropped records still decrypt), used when an
        # adversary feeds the reader
        self.stateless = stateless
        self.pool = pool

    def encrypt(self, data):
        n = len(data)
        if n % self.block_size:
            raise AssertionError("model: CBC encrypt of partial block")
        tag = "%s_%d" % (self.kn, 0 if self.stateless else self.ecalls)
        self.ecalls += 1
        y = apply_uf("E" + tag, data, n)
        if not is_concrete_mode() and n:
            assume(_fn("D" + tag, n, n)(cat(y)) == cat(data))
        return y

    def decrypt(self, data):
        n = len(data)
        if n % self.block_size:
            raise AssertionError("model: CBC decrypt of partial block")
        tag = "%s_%d" % (self.kn, 0 if self.stateless else self.dcalls)
        self.dcalls += 1
        x = apply_uf("D" + tag, data, n)
        if not is_concrete_mode() and n:
            assume(_fn("E" + tag, n, n)(cat(x)) == cat(data))
        if self.pool is not None:
            self.pool.append(list(x))
        return x


class StubStreamCipher(object):
    """RC4-shaped: per call a bijection on n bytes (keystream position is the
    call index, identical on both sides when calls are paired)."""
    isBlockCipher = False
    isAEAD = False
    implementation = "model"
    name = "rc4"

    def __init__(self, keyname, stateless=False, pool=None):
        self.kn = keyname
        self.ecalls = 0
        self.dcalls = 0
        self.stateless = stateless
        self.pool = pool

    def encrypt(self, data):
        n = len(data)
        tag = "%s_%d" % (self.kn, 0 if self.stateless else self.ecalls)
        self.ecalls += 1
        if n == 0:
            return _buf()
        y = apply_uf("S" + tag, data, n)
        if not is_concrete_mode():
            assume(_fn("T" + tag, n, n)(cat(y)) == cat(data))
        return y

    def decrypt(self, data):
        n = len(data)
        tag = "%s_%d" % (self.kn, 0 if self.stateless else self.dcalls)
        self.dcalls += 1
        if n == 0:
            return _buf()
        x = apply_uf("T" + tag, data, n)
        if not is_concrete_mode():
            assume(_fn("S" + tag, n, n)(cat(x)) == cat(data))
        if self.pool is not None:
            self.pool.append(list(x))
        return x


class StubAEAD(object):
    """seal(n, p, a) = Enc_k(n, a-independent keystream; p) || Tag_k(n, a, p)

    Enc is a bijection on |p| bytes indexed by the nonce (so Dec(Enc(p)) = p);
    Tag is an uninterpreted function of nonce, aad and *ciphertext*.
    open() returns the plaintext iff the trailing tag bytes equal Tag, else
    None - exactly the interface contract of tlslite's AEAD objects."""
    isBlockCipher = False
    isAEAD = True
    implementation = "model"

    def __init__(self, keyname, name="aes128gcm", nonce_len=12, tag_len=16):
        self.kn = keyname
        self.name = name
        self.nonceLength = nonce_len
        self.tagLength = tag_len
        self.key = None
        self.seal_log = []
        self.open_log = []
        # honest: list of (nonce, ciphertext, aad) sealed by the key holder;
        # when set, a tag can only verify for one of those (unforgeability)
        self.honest = None

    def _tag(self, nonce, ct, aad):
        ln = [len(nonce) & 0xff, (len(aad) >> 8) & 0xff, len(aad) & 0xff]
        return apply_uf("G" + self.kn, ln + list(nonce) + list(aad) + list(ct),
                        self.tagLength)

    def seal(self, nonce, plaintext, data):
        if len(nonce) != self.nonceLength:
            raise ValueError("Bad nonce length")
        n = len(plaintext)
        if n:
            ct = apply_uf("AE" + self.kn, list(nonce) + list(plaintext), n)
            if not is_concrete_mode():
                assume(_fn("AD" + self.kn, len(nonce) + n, n)(
                    cat(list(nonce) + list(ct))) == cat(plaintext))
        else:
            ct = _buf()
        self.seal_log.append((list(nonce), list(ct), list(data),
                              list(plaintext)))
        return ct + self._tag(nonce, ct, data)

    def open(self, nonce, ciphertext, data):
        if len(nonce) != self.nonceLength:
            raise ValueError("Bad nonce length")
        if len(ciphertext) < self.tagLength:
            return None
        n = len(ciphertext) - self.tagLength
        ct = ciphertext[:n]
        tag = ciphertext[n:]
        self.open_log.append((list(nonce), list(ct), list(data)))
        good = seq_eq(tag, self._tag(nonce, ct, data))
        if self.honest is not None:
            in_w = OR([AND(seq_eq(nonce, w[0]), seq_eq(ct, w[1]),
                           seq_eq(data, w[2]))
                       for w in self.honest
                       if len(w[0]) == len(nonce) and len(w[1]) == len(ct)
                       and len(w[2]) == len(data)])
            assume(OR(in_w, NOT(good)))
        if not good:        # forks in symbolic mode
            return None
        if n:
            pt = apply_uf("AD" + self.kn, list(nonce) + list(ct), n)
            if not is_concrete_mode():
                assume(_fn("AE" + self.kn, len(nonce) + n, n)(
                    cat(list(nonce) + list(pt))) == cat(ct))
        else:
            pt = _buf()
        return pt
