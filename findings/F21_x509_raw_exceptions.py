"""F21: X509.parseBinary raises raw Python exceptions on malformed
certificates (C08): KeyError for an unknown signature-algorithm OID,
IndexError for an empty subjectPublicKey BIT STRING, AssertionError for a
zero modulus / exponent.  The certificate arrives in the peer's Certificate
message (plaintext in TLS <= 1.2), so the exception escapes from
handshakeClientCert() / handshakeServer().

The demonstration rewrites single bytes of tests/serverX509Cert.pem and
reports every exception type other than SyntaxError (which _getMsg turns into
a decode_error alert).  exit 1 = defect present, 0 = absent.
usage: VERIF_REPO=<tree> /venv/bin/python findings/F21_x509_raw_exceptions.py
"""
import os
import sys

REPO = os.environ.get("VERIF_REPO", "/repo")
sys.path.insert(0, REPO)
from tlslite.x509 import X509                         # noqa: E402
from tlslite.utils.pem import dePem                   # noqa: E402

der = dePem(open(os.path.join(REPO, "tests", "serverX509Cert.pem")).read(),
            "CERTIFICATE")
seen = {}
for pos in range(len(der)):
    for val in (0x00, 0x01, 0x7f, 0x80, 0xff, der[pos] ^ 1, der[pos] ^ 0x80):
        if val == der[pos]:
            continue
        b = bytearray(der)
        b[pos] = val
        try:
            X509().parseBinary(b)
        except SyntaxError:
            pass
        except Exception as e:
            seen.setdefault(type(e).__name__, (pos, val, repr(e)[:80]))
for k, v in sorted(seen.items()):
    print("raw %-16s first at offset %d value 0x%02x: %s" % ((k,) + v))
print("DEFECT PRESENT" if seen else "no defect")
sys.exit(1 if seen else 0)
