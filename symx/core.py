"""symx: proxy-object symbolic execution of real Python code into z3 bit-vectors.

The functions under analysis are the unmodified ones imported from /repo; the
integers and byte strings flowing through them are proxy objects:

* SymInt   - a z3 BitVec term in two's complement plus a conservatively tracked
             interval [lo, hi].  Every operator widens its result so that nothing
             ever wraps: Python ``int`` semantics, not machine-word semantics.
* SymBool  - result of comparisons; ``__bool__`` forks the path.
* SymBytes - ``bytearray``-shaped sequence of *concrete length* whose elements are
             ``int`` or SymInt in 0..255.

Exploration is depth-first by re-execution with a decision prefix.  A SymInt
that is used where Python needs a concrete integer (index, slice bound, range
bound, hash) is *concretised*: every feasible value becomes its own path.

The same harness body can be executed in *concrete mode* (no proxies at all;
inputs are ordinary ints / bytearrays taken from a solver model).  That is how a
counterexample is replayed natively before it is reported.
"""
import itertools
import time

import z3


FAST_MS = 400

# When set to a bit width W, symbolic*symbolic multiplication and
# symbolic % <odd constant> are NOT encoded exactly but as uninterpreted
# functions over W-bit sign-extended operands (MUL is made commutative by
# ordering its arguments).  Used for field arithmetic whose exact encoding the
# solver cannot decide (Poly1305, X25519): everything around the field
# operations stays exact.  Only the interval bookkeeping relies on the real
# meaning of the operations.
ABSTRACT_ARITH = None
_AF = {}


def _afn(name, nargs, w):
    key = (name, nargs, w)
    if key not in _AF:
        _AF[key] = z3.Function("%s_%d" % (name, w),
                               *([z3.BitVecSort(w)] * (nargs + 1)))
    return _AF[key]


class PathAbort(BaseException):
    """Current path is infeasible (or cut by the harness); not an error."""


class Unsupported(BaseException):
    """A proxy reached an operation the engine does not model.

    BaseException on purpose: the code under analysis must not be able to
    swallow it with ``except Exception``.  The obligation becomes inconclusive.
    """


class BudgetExceeded(BaseException):
    """Path / time budget of the obligation was hit: inconclusive."""


class Ctx(object):
    """State of one path execution."""
    cur = None

    def __init__(self, decisions, query_timeout_ms):
        self.decisions = decisions   # replay prefix, extended as we go
        self.pos = 0
        self.pc = []                 # path condition (list of z3 Bool)
        self.solver = z3.Solver()
        self.query_timeout_ms = query_timeout_ms
        # incremental queries get a short budget; when it is exceeded the
        # query is repeated by a fresh one-shot solver (z3's one-shot
        # strategy on UF+BV is far stronger than its incremental core)
        self.solver.set("timeout", FAST_MS)
        self.model_solver = self.solver
        self.extra_stack = []
        self.nq = 0
        self.tsolve = 0.0
        self.unknown = 0
        self.concrete = False
        self.model = None

    def check(self, *extra):
        self.nq += 1
        t = time.time()
        r = self.solver.check(*extra)
        self.model_solver = self.solver
        if r == z3.unknown:
            s = z3.Solver()
            if self.query_timeout_ms:
                s.set("timeout", int(self.query_timeout_ms))
            for lit in self.pc:
                s.add(lit)
            for grp in self.extra_stack:
                for lit in grp:
                    s.add(lit)
            for e in extra:
                s.add(e)
            r = s.check()
            self.model_solver = s
        self.tsolve += time.time() - t
        if r == z3.unknown:
            self.unknown += 1
        return r

    def get_model(self):
        return self.model_solver.model()


class ConcreteCtx(object):
    """Native (replay) execution: no proxies, optional model for UF stubs."""
    concrete = True

    def __init__(self, model=None, uf_table=None):
        self.model = model
        self.uf_log = {}          # UF applications evaluated in the model
        self.uf_table = uf_table  # ... or read back from a replay file
        self.pc = []
        self.nq = 0
        self.tsolve = 0.0
        self.unknown = 0


def is_concrete_mode():
    c = Ctx.cur
    return c is None or c.concrete


def bits_for(lo, hi):
    """smallest two's-complement width holding both lo and hi"""
    w = max(lo.bit_length() if lo >= 0 else (-lo - 1).bit_length(),
            hi.bit_length() if hi >= 0 else (-hi - 1).bit_length()) + 1
    return w


def sx(e, w):
    d = w - e.size()
    if d == 0:
        return e
    if d > 0:
        return z3.SignExt(d, e)
    return z3.Extract(w - 1, 0, e)


def _sx(e, ew, w):
    """sign-extend / truncate e of known width ew to width w"""
    if ew == w:
        return e
    if w > ew:
        return z3.SignExt(w - ew, e)
    return z3.Extract(w - 1, 0, e)


def _is_symint(v):
    return isinstance(v, SymInt)


class SymInt(object):
    __slots__ = ("e", "lo", "hi", "w", "_b8")

    def __init__(self, e, lo, hi, ew=None):
        """e: z3 BitVec holding the value in two's complement (its width ew
        must be able to represent it); normalised to the minimal width for
        the interval [lo, hi]"""
        w = bits_for(lo, hi)
        if ew is None:
            ew = e.size()
        self.e = e if ew == w else _sx(e, ew, w)
        self.w = w
        self.lo, self.hi = lo, hi
        self._b8 = None

    @staticmethod
    def lift(v):
        if isinstance(v, SymInt):
            return v
        if isinstance(v, bool):
            v = int(v)
        if isinstance(v, int):
            w = bits_for(v, v)
            return SymInt(z3.BitVecVal(v, w), v, v, w)
        if isinstance(v, SymBool):
            return SymInt(z3.If(v.e, z3.BitVecVal(1, 2), z3.BitVecVal(0, 2)),
                          0, 1, 2)
        raise Unsupported("cannot lift %r to SymInt" % type(v))

    def at(self, w):
        """the term at width w >= self.w"""
        return _sx(self.e, self.w, w)

    def conc(self):
        return self.lo if self.lo == self.hi else None

    def __repr__(self):
        return "SymInt[%d..%d]" % (self.lo, self.hi)

    # -- arithmetic -------------------------------------------------------
    def _bin(self, o, f, lo, hi):
        w = max(bits_for(lo, hi), self.w, o.w) + 1
        return SymInt(f(self.at(w), o.at(w)), lo, hi, w)

    def __add__(self, o):
        if not isinstance(o, (int, SymInt, SymBool)):
            return NotImplemented
        if type(o) is int and o == 0:
            return self
        o = SymInt.lift(o)
        return self._bin(o, lambda a, b: a + b,
                         self.lo + o.lo, self.hi + o.hi)
    __radd__ = __add__

    def __sub__(self, o):
        if not isinstance(o, (int, SymInt, SymBool)):
            return NotImplemented
        if type(o) is int and o == 0:
            return self
        o = SymInt.lift(o)
        return self._bin(o, lambda a, b: a - b,
                         self.lo - o.hi, self.hi - o.lo)

    def __rsub__(self, o):
        return SymInt.lift(o) - self

    def __neg__(self):
        return 0 - self

    def __pos__(self):
        return self

    def __abs__(self):
        return ite(self < 0, -self, self)

    def __mul__(self, o):
        if isinstance(o, list) and self.conc() is None:
            return LazyList(o, self)
        if not isinstance(o, (int, SymInt, SymBool)):
            return NotImplemented
        if type(o) is int:
            if o == 0:
                return 0
            if o == 1:
                return self
            if o > 0 and o & (o - 1) == 0:
                return self << (o.bit_length() - 1)
        o = SymInt.lift(o)
        c = [self.lo * o.lo, self.lo * o.hi, self.hi * o.lo, self.hi * o.hi]
        lo, hi = min(c), max(c)
        w = max(bits_for(lo, hi), self.w + o.w)
        if ABSTRACT_ARITH and self.conc() is None and o.conc() is None:
            W = ABSTRACT_ARITH
            if w > W:
                raise Unsupported("abstract multiplication wider than %d" % W)
            a, b = self.at(W), o.at(W)
            f = _afn("MUL", 2, W)
            r = f(a, b)
            res = SymInt(r, lo, hi, W)
            # axioms instantiated at each use: commutativity, and the product
            # lies in its interval
            assume(z3.And(r == f(b, a), r >= z3.BitVecVal(lo, W),
                          r <= z3.BitVecVal(hi, W)))
            return res
        return SymInt(self.at(w) * o.at(w), lo, hi, w)
    __rmul__ = __mul__

    def __and__(self, o):
        if not isinstance(o, (int, SymInt, SymBool)):
            return NotImplemented
        if type(o) is int:
            if o == 0:
                return 0
            if self.lo >= 0 and o > 0 and o & (o + 1) == 0 and self.hi <= o:
                return self     # mask covers the whole range
            if o == -1:
                return self
        o = SymInt.lift(o)
        if self.lo >= 0 and o.lo >= 0:
            lo, hi = 0, min(self.hi, o.hi)
        elif self.lo >= 0:
            lo, hi = 0, self.hi
        elif o.lo >= 0:
            lo, hi = 0, o.hi
        else:
            w = max(self.w, o.w)
            lo, hi = -(1 << (w - 1)), (1 << (w - 1)) - 1
        return self._bin(o, lambda a, b: a & b, lo, hi)
    __rand__ = __and__

    def _orx(self, o, f):
        if not isinstance(o, (int, SymInt, SymBool)):
            return NotImplemented
        if type(o) is int and o == 0:
            return self
        o = SymInt.lift(o)
        if self.lo >= 0 and o.lo >= 0:
            k = max(self.hi.bit_length(), o.hi.bit_length())
            lo, hi = 0, (1 << k) - 1
        else:
            w = max(self.w, o.w)
            lo, hi = -(1 << (w - 1)), (1 << (w - 1)) - 1
        return self._bin(o, f, lo, hi)

    def __or__(self, o):
        return self._orx(o, lambda a, b: a | b)
    __ror__ = __or__

    def __xor__(self, o):
        return self._orx(o, lambda a, b: a ^ b)
    __rxor__ = __xor__

    def __invert__(self):
        return (-self) - 1

    def __lshift__(self, n):
        n = int(n)
        if n < 0:
            raise ValueError("negative shift count")
        if n == 0:
            return self
        w = self.w + n
        return SymInt(self.at(w) << n, self.lo << n, self.hi << n, w)

    def __rlshift__(self, o):
        # concrete << symbolic: enumerate the shift count
        return SymInt.lift(o) << int(self)

    def __rshift__(self, n):
        n = int(n)
        if n < 0:
            raise ValueError("negative shift count")
        if n == 0:
            return self
        if n >= self.w:
            n = self.w - 1
        # arithmetic shift of the sign-extended term == floor division
        return SymInt(z3.Extract(self.w - 1, n, self.e),
                      self.lo >> n, self.hi >> n, self.w - n)

    def __rrshift__(self, o):
        return SymInt.lift(o) >> int(self)

    def _divmod_const(self, o):
        """floor division / modulo, Python semantics"""
        o = SymInt.lift(o)
        oc = o.conc()
        if oc is not None:
            if oc == 0:
                raise ZeroDivisionError("integer division or modulo by zero")
            if oc > 0 and oc & (oc - 1) == 0:
                k = oc.bit_length() - 1
                return self >> k, self & (oc - 1)
        if bool(o == 0):
            raise ZeroDivisionError("integer division or modulo by zero")
        if ABSTRACT_ARITH and oc is not None and oc > 0 and self.lo >= 0 \
                and self.conc() is None:
            W = ABSTRACT_ARITH
            if self.w > W:
                raise Unsupported("abstract modulo wider than %d" % W)
            r = _afn("MOD%x" % oc, 1, W)(self.at(W))
            assume(z3.And(r >= 0, r < z3.BitVecVal(oc, W)))
            q = _afn("DIV%x" % oc, 1, W)(self.at(W))
            return (SymInt(q, self.lo // oc, self.hi // oc, W),
                    SymInt(r, 0, min(self.hi, oc - 1), W))
        if self.lo >= 0 and o.lo > 0:
            w = max(self.w, o.w)
            q = SymInt(z3.UDiv(self.at(w), o.at(w)),
                       self.lo // o.hi, self.hi // o.lo, w)
            r = SymInt(z3.URem(self.at(w), o.at(w)),
                       0, min(self.hi, o.hi - 1), w)
            return q, r
        # general signed case: floor semantics through ite
        w = max(self.w, o.w) + 1
        a, b = self.at(w), o.at(w)
        q0 = a / b          # z3 bvsdiv: truncation toward zero
        r0 = z3.SRem(a, b)  # sign follows dividend
        adj = z3.And(r0 != 0, (r0 < 0) != (b < 0))
        qe = z3.If(adj, q0 - 1, q0)
        re_ = z3.If(adj, r0 + b, r0)
        m = max(abs(self.lo), abs(self.hi)) + 1
        mo = max(abs(o.lo), abs(o.hi))
        return SymInt(qe, -m, m, w), SymInt(re_, -mo, mo, w)

    def __floordiv__(self, o):
        return self._divmod_const(o)[0]

    def __rfloordiv__(self, o):
        return SymInt.lift(o)._divmod_const(self)[0]

    def __mod__(self, o):
        return self._divmod_const(o)[1]

    def __rmod__(self, o):
        return SymInt.lift(o)._divmod_const(self)[1]

    def __divmod__(self, o):
        return self._divmod_const(o)

    def __truediv__(self, o):
        raise Unsupported("true division on a symbolic int")

    def __pow__(self, e, m=None):
        e = int(e)
        if e < 0:
            raise Unsupported("negative exponent")
        result = 1
        base = self
        while e:
            if e & 1:
                result = result * base
                if m is not None:
                    result = result % m
            e >>= 1
            if e:
                base = base * base
                if m is not None:
                    base = base % m
        return result

    def __rpow__(self, o, m=None):
        return pow(o, int(self), m)

    def bit_length(self):
        if self.lo < 0:
            raise Unsupported("bit_length of possibly negative SymInt")
        r = 0
        for k in range(self.hi.bit_length()):
            r = ite(self >= (1 << k), k + 1, r)
        return r

    # -- comparison -------------------------------------------------------
    def _cmp(self, o, f):
        o = SymInt.lift(o)
        w = max(self.w, o.w)
        return SymBool(f(self.at(w), o.at(w)))

    def __lt__(self, o):
        if self.hi < SymInt.lift(o).lo:
            return True
        if self.lo >= SymInt.lift(o).hi:
            return False
        return self._cmp(o, lambda a, b: a < b)

    def __le__(self, o):
        if self.hi <= SymInt.lift(o).lo:
            return True
        if self.lo > SymInt.lift(o).hi:
            return False
        return self._cmp(o, lambda a, b: a <= b)

    def __gt__(self, o):
        if self.lo > SymInt.lift(o).hi:
            return True
        if self.hi <= SymInt.lift(o).lo:
            return False
        return self._cmp(o, lambda a, b: a > b)

    def __ge__(self, o):
        if self.lo >= SymInt.lift(o).hi:
            return True
        if self.hi < SymInt.lift(o).lo:
            return False
        return self._cmp(o, lambda a, b: a >= b)

    def __eq__(self, o):
        if not isinstance(o, (int, SymInt, SymBool)):
            return NotImplemented
        ol = SymInt.lift(o)
        if self.hi < ol.lo or self.lo > ol.hi:
            return False
        return self._cmp(o, lambda a, b: a == b)

    def __ne__(self, o):
        if not isinstance(o, (int, SymInt, SymBool)):
            return NotImplemented
        ol = SymInt.lift(o)
        if self.hi < ol.lo or self.lo > ol.hi:
            return True
        return self._cmp(o, lambda a, b: a != b)

    def __hash__(self):
        return hash(int(self))

    def __bool__(self):
        return bool(self != 0)

    def __index__(self):
        c = self.conc()
        if c is not None:
            return c
        return concretize(self)
    __int__ = __index__

    def to_bytes(self, length, byteorder='big', signed=False):
        if signed:
            raise Unsupported("to_bytes(signed=True)")
        length = int(length)
        if bool(self < 0):
            raise OverflowError("can't convert negative int to unsigned")
        if bool(self >= (1 << (8 * length))):
            raise OverflowError("int too big to convert")
        w = 8 * length + 1
        e = _sx(self.e, self.w, w)
        out = []
        for j in range(length):
            b = z3.Extract(8 * (length - j) - 1, 8 * (length - j - 1), e)
            out.append(_mk_byte(b))
        if byteorder != 'big':
            out.reverse()
        return SymBytes(out)


class LazyList(list):
    """``[x] * n`` with symbolic n: grows on demand; the surrounding loop
    (sym_range) decides the real length by forking on ``i < n``"""

    def __init__(self, pattern, n):
        list.__init__(self)
        self._pattern = list(pattern)
        self._n = n

    def __setitem__(self, i, v):
        if isinstance(i, (int, SymInt)) and not isinstance(i, bool):
            i = int(i)
            while len(self) <= i:
                if not self._pattern:
                    raise IndexError("list assignment index out of range")
                list.extend(self, self._pattern)
        list.__setitem__(self, i, v)


def sym_range(*a):
    """``range`` for module globals of analysed code: a symbolic stop value is
    not concretised up front; each iteration forks on ``i < stop``"""
    if not any(isinstance(x, (SymInt, SymBool)) for x in a):
        return range(*a)
    if len(a) == 1:
        start, stop, step = 0, a[0], 1
    elif len(a) == 2:
        start, stop, step = a[0], a[1], 1
    else:
        start, stop, step = a
    if isinstance(start, (SymInt, SymBool)):
        start = int(start)
    if isinstance(step, (SymInt, SymBool)):
        step = int(step)
    if step == 0:
        raise ValueError("range() arg 3 must not be zero")

    def gen():
        i = start
        while bool(i < stop) if step > 0 else bool(i > stop):
            yield i
            i += step
    return gen()


def _mk_byte(b8, simp=True):
    """8-bit z3 term -> int if constant else SymInt in 0..255"""
    if simp:
        b8 = z3.simplify(b8)
        if z3.is_bv_value(b8):
            return b8.as_long()
    r = SymInt(z3.ZeroExt(1, b8), 0, 255, 9)
    r._b8 = b8
    return r


class SymBool(object):
    __slots__ = ("e",)

    def __init__(self, e):
        self.e = e

    def __bool__(self):
        e = z3.simplify(self.e)
        self.e = e
        if z3.is_true(e):
            return True
        if z3.is_false(e):
            return False
        return fork(e)

    def __repr__(self):
        return "SymBool"

    def __invert__(self):
        return ~SymInt.lift(self)

    def __and__(self, o):
        if isinstance(o, (SymBool, bool)):
            return SymBool(z3.And(self.e, _b(o)))
        return SymInt.lift(self) & o

    def __or__(self, o):
        if isinstance(o, (SymBool, bool)):
            return SymBool(z3.Or(self.e, _b(o)))
        return SymInt.lift(self) | o

    def __xor__(self, o):
        if isinstance(o, (SymBool, bool)):
            return SymBool(z3.Xor(self.e, _b(o)))
        return SymInt.lift(self) ^ o
    __rand__ = __and__
    __ror__ = __or__
    __rxor__ = __xor__

    def __add__(self, o):
        return SymInt.lift(self) + o
    __radd__ = __add__

    def __sub__(self, o):
        return SymInt.lift(self) - o

    def __rsub__(self, o):
        return o - SymInt.lift(self)

    def __mul__(self, o):
        return SymInt.lift(self) * o
    __rmul__ = __mul__

    def __eq__(self, o):
        if isinstance(o, (SymBool, bool)):
            return SymBool(self.e == _b(o))
        return SymInt.lift(self) == o

    def __ne__(self, o):
        if isinstance(o, (SymBool, bool)):
            return SymBool(self.e != _b(o))
        return SymInt.lift(self) != o

    def __hash__(self):
        return hash(bool(self))

    def __index__(self):
        return int(bool(self))
    __int__ = __index__


def _b(v):
    """anything truthy -> z3 Bool (no forking for SymBool/SymInt)"""
    if isinstance(v, SymBool):
        return v.e
    if isinstance(v, SymInt):
        return (v != 0).e if isinstance(v != 0, SymBool) \
            else z3.BoolVal(bool(v != 0))
    if z3.is_expr(v):
        return v
    return z3.BoolVal(bool(v))


# ---------------------------------------------------------------------------
# Boolean combinators usable in both symbolic and concrete mode
# ---------------------------------------------------------------------------

def _is_sym(v):
    return isinstance(v, (SymBool, SymInt))


def AND(*xs):
    xs = _flat(xs)
    if not any(_is_sym(x) for x in xs):
        return all(bool(x) for x in xs)
    if any((not _is_sym(x)) and not x for x in xs):
        return False
    return SymBool(z3.And(*[_b(x) for x in xs if _is_sym(x)]))


def OR(*xs):
    xs = _flat(xs)
    if not any(_is_sym(x) for x in xs):
        return any(bool(x) for x in xs)
    if any((not _is_sym(x)) and x for x in xs):
        return True
    return SymBool(z3.Or(*[_b(x) for x in xs if _is_sym(x)]))


def NOT(x):
    if _is_sym(x):
        return SymBool(z3.Not(_b(x)))
    return not x


def IMPLIES(a, b):
    return OR(NOT(a), b)


def IFF(a, b):
    if _is_sym(a) or _is_sym(b):
        return SymBool(_b(a) == _b(b))
    return bool(a) == bool(b)


def _flat(xs):
    out = []
    for x in xs:
        if isinstance(x, (list, tuple)):
            out.extend(_flat(x))
        else:
            out.append(x)
    return out


def seq_eq(a, b):
    """element-wise equality of two byte/int sequences; no forking"""
    a = list(a)
    b = list(b)
    if len(a) != len(b):
        return False
    return AND([x == y for x, y in zip(a, b)])


def ite(c, a, b):
    if not _is_sym(c):
        return a if c else b
    if a is b:
        return a
    a = SymInt.lift(a)
    b = SymInt.lift(b)
    w = max(a.w, b.w)
    return SymInt(z3.If(_b(c), a.at(w), b.at(w)),
                  min(a.lo, b.lo), max(a.hi, b.hi), w)


def sym_max(*a, **kw):
    if len(a) == 1 and not kw:
        a = list(a[0])
    if kw or not any(_is_sym(x) for x in a):
        return max(*a, **kw) if len(a) > 1 else max(a[0], **kw)
    r = a[0]
    for x in a[1:]:
        r = ite(SymInt.lift(r) >= x, r, x)
    return r


def sym_min(*a, **kw):
    if len(a) == 1 and not kw:
        a = list(a[0])
    if kw or not any(_is_sym(x) for x in a):
        return min(*a, **kw) if len(a) > 1 else min(a[0], **kw)
    r = a[0]
    for x in a[1:]:
        r = ite(SymInt.lift(r) <= x, r, x)
    return r


# ---------------------------------------------------------------------------
# forking
# ---------------------------------------------------------------------------

def fork(cond):
    c = Ctx.cur
    if c is None or c.concrete:
        raise Unsupported("fork in concrete mode")
    if c.pos < len(c.decisions):
        d = c.decisions[c.pos][0]
    else:
        rt = c.check(cond)
        rf = c.check(z3.Not(cond))
        if rt == z3.unknown or rf == z3.unknown:
            raise Unsupported("solver unknown while forking")
        t = rt == z3.sat
        f = rf == z3.sat
        if not t and not f:
            raise PathAbort()
        d = t
        c.decisions.append([d, t and f])
    c.pos += 1
    lit = cond if d else z3.Not(cond)
    c.pc.append(lit)
    c.solver.add(lit)
    return d


MAX_CONCRETIZE = 4096


def concretize(si):
    """fork over every feasible value of a SymInt (indices, lengths, hashes)"""
    e = z3.simplify(si.e)
    if z3.is_bv_value(e):
        return e.as_signed_long()
    c = Ctx.cur
    if c is None or c.concrete:
        raise Unsupported("concretize in concrete mode")
    if c.pos < len(c.decisions):
        v, rest = c.decisions[c.pos]
    else:
        vals = []
        c.solver.push()
        c.extra_stack.append([])
        try:
            while True:
                r = c.check()
                if r == z3.unknown:
                    raise Unsupported("solver unknown while concretising")
                if r != z3.sat:
                    break
                v = c.get_model().eval(e, model_completion=True)
                v = v.as_signed_long()
                vals.append(v)
                c.solver.add(e != v)
                c.extra_stack[-1].append(e != v)
                if len(vals) > MAX_CONCRETIZE:
                    raise Unsupported("concretize: more than %d feasible "
                                      "values" % MAX_CONCRETIZE)
        finally:
            c.extra_stack.pop()
            c.solver.pop()
        if not vals:
            raise PathAbort()
        vals.sort()
        v, rest = vals[0], vals[1:]
        c.decisions.append([v, rest])
    c.pos += 1
    lit = (e == v)
    c.pc.append(lit)
    c.solver.add(lit)
    return v


def choose(options):
    """nondeterministic choice among concrete options: one path per option"""
    options = list(options)
    c = Ctx.cur
    if c is None or c.concrete:
        raise Unsupported("choose in concrete mode")
    if not options:
        raise PathAbort()
    if c.pos < len(c.decisions):
        i, rest = c.decisions[c.pos]
    else:
        i, rest = 0, list(range(1, len(options)))
        c.decisions.append([i, rest])
    c.pos += 1
    return options[i]


def assume(cond):
    """add an assumption to the current path (aborts if it is concrete False)"""
    c = Ctx.cur
    if c is None or c.concrete:
        if _is_sym(cond):
            raise Unsupported("symbolic assume in concrete mode")
        if z3.is_expr(cond):
            return   # axioms over UFs: satisfied by the model by construction
        if not cond:
            raise PathAbort()
        return
    if not _is_sym(cond) and not z3.is_expr(cond):
        if not cond:
            raise PathAbort()
        return
    e = _b(cond)
    c.solver.add(e)
    c.pc.append(e)


def feasible():
    c = Ctx.cur
    if c is None or c.concrete:
        return True
    return c.check() == z3.sat


def explore(fn, max_paths=100000, query_timeout_ms=60000, deadline=None):
    """Run fn() on every feasible path; yields (ctx, result).

    Raises BudgetExceeded when max_paths or the deadline is hit (the caller
    must treat the obligation as inconclusive)."""
    decisions = []
    stats = dict(paths=0, aborted=0, queries=0, tsolve=0.0, unknown=0)
    explore.stats = stats
    while True:
        c = Ctx(decisions, query_timeout_ms)
        Ctx.cur = c
        try:
            try:
                res = fn()
                ok = True
            except PathAbort:
                res, ok = None, False
        finally:
            Ctx.cur = None
            stats["paths"] += 1
            stats["queries"] += c.nq
            stats["tsolve"] += c.tsolve
            stats["unknown"] += c.unknown
        if ok:
            yield c, res
        else:
            stats["aborted"] += 1
        decisions = c.decisions[:c.pos]
        while decisions and not decisions[-1][1]:
            decisions.pop()
        if not decisions:
            return
        if decisions[-1][1] is True:
            decisions[-1] = [not decisions[-1][0], False]
        else:
            rest = decisions[-1][1]
            decisions[-1] = [rest[0], rest[1:]]
        if stats["paths"] >= max_paths:
            raise BudgetExceeded("path budget %d" % max_paths)
        if deadline is not None and time.time() > deadline:
            raise BudgetExceeded("time budget")


# ---------------------------------------------------------------------------
# SymBytes
# ---------------------------------------------------------------------------

class SymBytes(object):
    """bytearray-like with concrete length, elements int or SymInt in 0..255"""
    __slots__ = ("v",)

    def __init__(self, items=(), *rest):
        if rest:
            raise Unsupported("bytearray(str, encoding) on proxy")
        if isinstance(items, SymInt):
            items = int(items)
        if isinstance(items, int):
            items = [0] * items
        elif isinstance(items, SymBytes):
            items = items.v
        elif isinstance(items, str):
            raise TypeError("string argument without an encoding")
        self.v = list(items)

    def __len__(self):
        return len(self.v)

    def __repr__(self):
        return "SymBytes(%d)" % len(self.v)

    def _bound(self, b):
        """slice bound: a symbolic bound beyond the end behaves like the
        end (one path) - only bounds inside the buffer are enumerated"""
        if b is None:
            return None
        if isinstance(b, SymInt) and not is_concrete_mode():
            if b >= len(self.v):
                return len(self.v)
            if b < 0:
                if b <= -len(self.v):
                    return -len(self.v) if len(self.v) else 0
        return int(b)

    def _idx(self, i):
        if isinstance(i, slice):
            return slice(self._bound(i.start), self._bound(i.stop),
                         None if i.step is None else int(i.step))
        return int(i)

    def __getitem__(self, i):
        i = self._idx(i)
        if isinstance(i, slice):
            return SymBytes(self.v[i])
        return self.v[i]

    def __setitem__(self, i, x):
        i = self._idx(i)
        if isinstance(i, slice):
            self.v[i] = list(x)
        else:
            self.v[i] = _byte_check(x)

    def __delitem__(self, i):
        del self.v[self._idx(i)]

    def __iter__(self):
        return iter(self.v)

    def __reversed__(self):
        return reversed(self.v)

    def __contains__(self, x):
        return bool(OR([y == x for y in self.v]))

    def __add__(self, o):
        if isinstance(o, (SymBytes, bytes, bytearray)):
            return SymBytes(self.v + list(o))
        return NotImplemented

    def __radd__(self, o):
        if isinstance(o, (SymBytes, bytes, bytearray)):
            return SymBytes(list(o) + self.v)
        return NotImplemented

    def __iadd__(self, o):
        if isinstance(o, (SymBytes, bytes, bytearray)):
            self.v += list(o)
            return self
        return NotImplemented

    def __mul__(self, n):
        return SymBytes(self.v * int(n))
    __rmul__ = __mul__

    def append(self, x):
        self.v.append(_byte_check(x))

    def extend(self, o):
        self.v.extend(_byte_check(x) for x in o)

    def pop(self, i=-1):
        return self.v.pop(int(i))

    def reverse(self):
        self.v.reverse()

    def __eq__(self, o):
        if not isinstance(o, (SymBytes, bytes, bytearray)):
            return False
        return seq_eq(self.v, list(o))

    def __ne__(self, o):
        return NOT(self.__eq__(o))

    def __hash__(self):
        return hash(bytes(self))

    def copy(self):
        return SymBytes(self.v)

    def is_concrete(self):
        return all(isinstance(x, int) for x in self.v)

    def __bytes__(self):
        out = []
        for x in self.v:
            out.append(int(x))
        return bytes(out)

    def __bool__(self):
        return len(self.v) > 0

    def startswith(self, p):
        p = list(p)
        return bool(seq_eq(self.v[:len(p)], p)) if len(p) <= len(self.v) \
            else False

    def endswith(self, p):
        p = list(p)
        if len(p) > len(self.v):
            return False
        return bool(seq_eq(self.v[len(self.v) - len(p):], p))

    def find(self, sub, start=0):
        sub = list(sub) if not isinstance(sub, (int, SymInt)) else [sub]
        for i in range(int(start), len(self.v) - len(sub) + 1):
            if bool(seq_eq(self.v[i:i + len(sub)], sub)):
                return i
        return -1

    def index(self, sub, start=0):
        r = self.find(sub, start)
        if r < 0:
            raise ValueError("subsection not found")
        return r

    def count(self, x):
        r = 0
        for y in self.v:
            r = r + ite(y == x, 1, 0)
        return r

    def decode(self, *a, **k):
        return bytes(self).decode(*a, **k)

    def hex(self):
        return bytes(self).hex()


def _byte_check(x):
    if isinstance(x, int):
        if not 0 <= x < 256:
            raise ValueError("byte must be in range(0, 256)")
        return x
    if isinstance(x, SymBool):
        x = SymInt.lift(x)
    if isinstance(x, SymInt):
        if x.lo >= 0 and x.hi <= 255:
            return x
        if bool(OR(x < 0, x > 255)):
            raise ValueError("byte must be in range(0, 256)")
        return SymInt(x.e, 0, 255, x.w) if x.w >= 9 else x
    raise TypeError("an integer is required")


def mk_bytearray(*a, **k):
    """drop-in for the ``bytearray`` name inside analysed modules"""
    if k:
        raise Unsupported("bytearray with keyword arguments")
    if not a:
        return SymBytes()
    if len(a) > 1:
        return SymBytes(bytearray(*a))
    return SymBytes(a[0])


def native(x):
    """proxy -> native object; only legal when the content is concrete"""
    if isinstance(x, SymBytes):
        if not x.is_concrete():
            raise Unsupported("symbolic bytes reached a native-only call")
        return bytearray(x.v)
    if isinstance(x, SymInt):
        c = x.conc()
        if c is None:
            return int(x)
        return c
    return x


def sym_from_bytes(b, byteorder='big', signed=False):
    """replacement for int.from_bytes / compat.bytes_to_int"""
    if signed:
        raise Unsupported("from_bytes(signed=True)")
    v = list(b)
    if all(isinstance(x, int) for x in v):
        return int.from_bytes(bytes(v), byteorder)
    if byteorder != 'big':
        v.reverse()
    n = len(v)
    parts = []
    for x in v:
        parts.append(byte_term(x))
    e = z3.Concat(*parts) if n > 1 else parts[0]
    return SymInt(z3.ZeroExt(1, e), 0, (1 << (8 * n)) - 1, 8 * n + 1)


def byte_term(x):
    """8-bit z3 term of a byte-valued int / SymInt (cached per SymInt)"""
    if isinstance(x, int):
        return z3.BitVecVal(x, 8)
    if isinstance(x, SymBool):
        x = SymInt.lift(x)
    t = x._b8
    if t is None:
        if x.w >= 8:
            t = z3.Extract(7, 0, x.e)
        else:
            t = z3.SignExt(8 - x.w, x.e)
        x._b8 = t
    return t


# ---------------------------------------------------------------------------
# Inputs: symbolic in exploration, concrete in replay
# ---------------------------------------------------------------------------

class Inputs(object):
    """Source of the obligation's free variables.

    Symbolic mode: fresh z3 constants named <name>#<k> (k = creation order, so
    re-execution of a path recreates identical names).  Concrete mode: values
    from a dict (missing names default to 0)."""

    def __init__(self, values=None):
        self.values = values
        self.concrete = values is not None
        self.decl = {}      # name -> (z3 const, kind, bits)
        self._n = itertools.count()

    def _name(self, name):
        return "%s#%d" % (name, next(self._n))

    def uint(self, bits, name="u"):
        nm = self._name(name)
        if self.concrete:
            return int(self.values.get(nm, 0))
        v = z3.BitVec(nm, bits)
        self.decl[nm] = v
        r = SymInt(z3.ZeroExt(1, v), 0, (1 << bits) - 1, bits + 1)
        if bits == 8:
            r._b8 = v
        return r

    def byte(self, name="b"):
        return self.uint(8, name)

    def bool(self, name="f"):
        nm = self._name(name)
        if self.concrete:
            return bool(self.values.get(nm, 0))
        v = z3.BitVec(nm, 1)
        self.decl[nm] = v
        return SymBool(v == 1)

    def int_range(self, lo, hi, name="i"):
        """integer in lo..hi inclusive"""
        span = hi - lo
        bits = max(1, span.bit_length())
        u = self.uint(bits, name)
        if self.concrete:
            r = lo + u
            if not lo <= r <= hi:
                raise PathAbort()
            return r
        assume(u <= span)
        r = u + lo
        return SymInt(r.e, lo, hi, r.w)

    def bytes(self, n, name="d"):
        items = [self.byte(name) for _ in range(n)]
        if self.concrete:
            return bytearray(items)
        return SymBytes(items)

    def pick(self, options, name="pick"):
        """one of the given concrete options, chosen by a symbolic selector
        that is concretised at once (one path per option)"""
        options = list(options)
        i = self.int_range(0, len(options) - 1, name)
        return options[int(i)]

    def model_values(self, model):
        out = {}
        for nm, v in self.decl.items():
            out[nm] = model.eval(v, model_completion=True).as_long()
        return out
