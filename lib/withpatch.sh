#!/bin/sh
# usage: lib/withpatch.sh [-R] <patch> -- <command...>
# applies <patch> to /repo's working tree, runs the command, restores /repo.
REV=""
if [ "$1" = "-R" ]; then REV="-R"; shift; fi
P="$1"; shift; [ "$1" = "--" ] && shift
cd /repo || exit 3
if [ -n "$(git status --porcelain --untracked-files=no)" ]; then
    echo "withpatch: /repo working tree not clean"; exit 3
fi
git apply $REV "$P" || { echo "withpatch: patch does not apply"; exit 3; }
cd /verif
"$@"
RC=$?
git -C /repo checkout -- .
exit $RC
