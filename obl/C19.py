"""C19 - settings validation is pure, idempotent, closed and domain-strict."""
import copy

from lib.framework import obligation
from symx.core import (SymInt, SymBool, AND, OR, NOT, IFF, IMPLIES,
                       is_concrete_mode, assume, ite)

import tlslite.handshakesettings as hs
from tlslite.handshakesettings import HandshakeSettings
from tlslite.utils import cipherfactory, cryptomath

HS_FUNCS = ["tlslite.handshakesettings:HandshakeSettings.validate",
            "tlslite.handshakesettings:HandshakeSettings._sanityCheckKeySizes",
            "tlslite.handshakesettings:HandshakeSettings."
            "_sanityCheckPrimitivesNames",
            "tlslite.handshakesettings:HandshakeSettings."
            "_sanityCheckCipherSettings",
            "tlslite.handshakesettings:HandshakeSettings."
            "_sanityCheckECDHSettings",
            "tlslite.handshakesettings:HandshakeSettings."
            "_sanityCheckDHSettings",
            "tlslite.handshakesettings:HandshakeSettings."
            "_sanityCheckProtocolVersions",
            "tlslite.handshakesettings:HandshakeSettings."
            "_sanityCheckExtensions",
            "tlslite.handshakesettings:HandshakeSettings."
            "_sanityCheckEMSExtension",
            "tlslite.handshakesettings:HandshakeSettings._sanityCheckPsks",
            "tlslite.handshakesettings:HandshakeSettings."
            "_sanityCheckTicketSettings",
            "tlslite.handshakesettings:HandshakeSettings."
            "_sanity_check_implementations",
            "tlslite.handshakesettings:HandshakeSettings._sanity_check_ciphers",
            "tlslite.handshakesettings:HandshakeSettings._copy_cipher_settings",
            "tlslite.handshakesettings:HandshakeSettings."
            "_copy_extension_settings",
            "tlslite.handshakesettings:HandshakeSettings._copy_key_settings"]

# list-valued fields and the menu each of their elements is drawn from (the
# documented vocabulary + one out-of-vocabulary token)
LIST_FIELDS = {
    "cipherNames": hs.ALL_CIPHER_NAMES + ["bogus"],
    "macNames": hs.ALL_MAC_NAMES + ["bogus"],
    "keyExchangeNames": hs.KEY_EXCHANGE_NAMES + ["bogus"],
    "cipherImplementations": hs.CIPHER_IMPLEMENTATIONS + ["bogus"],
    "certificateTypes": hs.CERTIFICATE_TYPES + ["bogus"],
    "rsaSigHashes": hs.ALL_RSA_SIGNATURE_HASHES + ["bogus"],
    "rsaSchemes": hs.RSA_SCHEMES + ["bogus"],
    "dsaSigHashes": hs.DSA_SIGNATURE_HASHES + ["bogus"],
    "ecdsaSigHashes": hs.ECDSA_SIGNATURE_HASHES + ["bogus"],
    "more_sig_schemes": hs.SIGNATURE_SCHEMES + ["bogus"],
    "eccCurves": hs.ALL_CURVE_NAMES + ["bogus"],
    "dhGroups": hs.ALL_DH_GROUP_NAMES + ["bogus"],
    "keyShares": ["x25519", "secp256r1", "ffdhe2048", "secp521r1", "bogus"],
    "psk_modes": hs.PSK_MODES + ["bogus"],
    "versions": [(3, 4), (3, 3), (3, 2), (3, 1), (3, 0)],
    "ec_point_formats": [0, 1, 2, 77],
    "certificate_compression_send": hs.ALL_COMPRESSION_ALGOS_SEND + ["bogus"],
    "certificate_compression_receive":
        hs.ALL_COMPRESSION_ALGOS_RECEIVE + ["bogus"],
    "ticketKeys": [bytearray(16), bytearray(32), bytearray(15)],
    "pskConfigs": [(b"id", b"key"), (b"id", b"key", "sha384"),
                   (b"id", b"key", "md5"), (b"id",)],
}

SNAP_FIELDS = None


def fields_of(s):
    return sorted(k for k in vars(s))


def snapshot(s):
    out = {}
    for k in fields_of(s):
        v = getattr(s, k)
        if isinstance(v, list):
            v = ("list", tuple(_freeze(x) for x in v))
        else:
            v = _freeze(v)
        out[k] = v
    return out


def _freeze(x):
    if isinstance(x, (bytearray, bytes)):
        return bytes(x)
    if isinstance(x, list):
        return tuple(_freeze(i) for i in x)
    if isinstance(x, tuple):
        return tuple(_freeze(i) for i in x)
    return x


def snap_equal(a, b):
    """compare snapshots; entries may hold SymInt (scalar fields)"""
    if sorted(a) != sorted(b):
        return False
    conds = []
    for k in a:
        conds.append(_eq(a[k], b[k]))
    return AND(conds)


def _eq(x, y):
    if isinstance(x, tuple) and isinstance(y, tuple):
        if len(x) != len(y):
            return False
        return AND([_eq(p, q) for p, q in zip(x, y)])
    if isinstance(x, (SymInt, SymBool)) or isinstance(y, (SymInt, SymBool)):
        if isinstance(x, (int, SymInt, SymBool)) and \
                isinstance(y, (int, SymInt, SymBool)):
            return x == y
        return False
    if type(x) != type(y) and not (isinstance(x, (int, bool)) and
                                   isinstance(y, (int, bool))):
        return False
    return x == y


def supported_names():
    ciph = set(hs.ALL_CIPHER_NAMES)
    if not cipherfactory.tripleDESPresent:
        ciph.discard("3des")
    impl = set(["python"])
    if cryptomath.m2cryptoLoaded:
        impl.add("openssl")
    if cryptomath.pycryptoLoaded:
        impl.add("pycrypto")
    return ciph, impl


def _shapes_c19_1(tier):
    out = []
    for f in sorted(LIST_FIELDS):
        for k in ((0, 1, 2) if tier == "quick" else (0, 1, 2, 3)):
            for mx in ([3, 4], [3, 3], [3, 2]):
                if tier == "quick" and mx == [3, 2] and f not in (
                        "macNames", "versions", "cipherNames"):
                    continue
                out.append(dict(field=f, k=k, maxVersion=mx))
    return out


def build_settings(I, shape):
    s = HandshakeSettings()
    s.maxVersion = tuple(shape["maxVersion"])
    f = shape["field"]
    menu = LIST_FIELDS[f]
    vals = [I.pick(menu, "item") for _ in range(shape["k"])]
    setattr(s, f, [copy.copy(v) for v in vals])
    return s


@obligation("C19.1", _shapes_c19_1, functions=HS_FUNCS,
            assumes=["receiver = defaults with maxVersion in {3.4, 3.3, 3.2} "
                     "and ONE list-valued field replaced by a list of k "
                     "elements, each picked by a symbolic selector from the "
                     "documented vocabulary plus one unknown token (every "
                     "combination, incl. duplicates and the empty list, is a "
                     "path)"],
            max_paths=50000, timeout=(300, 1200))
def c19_1(I, shape):
    """validate() leaves the receiver untouched, its result is a fixed point
    and contains only supported algorithms"""
    s = build_settings(I, shape)
    before = snapshot(s)
    try:
        v = s.validate()
    except ValueError:
        I.check(snap_equal(before, snapshot(s)),
                "receiver-unchanged-when-rejected")
        return
    except Exception as e:
        I.fail("validate raised %s instead of ValueError" % type(e).__name__)
        return
    I.check(snap_equal(before, snapshot(s)), "receiver-unchanged")
    vsnap = snapshot(v)
    try:
        v2 = v.validate()
    except Exception as e:
        I.fail("validate of a validated object raised %s" % type(e).__name__)
        return
    I.check(snap_equal(vsnap, snapshot(v2)), "validate-idempotent")
    I.check(snap_equal(vsnap, snapshot(v)), "validated-object-unchanged")
    ciph, impl = supported_names()
    I.check(all(c in ciph for c in v.cipherNames) and
            all(i in impl for i in v.cipherImplementations) and
            len(v.cipherNames) > 0 and len(v.cipherImplementations) > 0,
            "result-contains-only-supported-algorithms")
    # closure under the documented vocabularies
    ok = True
    for f, menu in LIST_FIELDS.items():
        known = [m for m in menu if m != "bogus" and m != 77 and
                 m != (b"id",) and m != (b"id", b"key", "md5")
                 and not (isinstance(m, bytearray) and len(m) == 15)]
        if f in ("versions", "keyShares", "ticketKeys", "pskConfigs"):
            continue
        for x in getattr(v, f):
            if x not in known:
                ok = False
    I.check(ok, "result-within-documented-vocabularies")


# ---------------------------------------------------------------------------
# C19.3  scalar domains
# ---------------------------------------------------------------------------

SCALARS = {
    # field: (bits, lo, hi)  documented domain lo..hi inclusive
    "minKeySize": (16, 512, 16384),
    "maxKeySize": (16, 512, 16384),
    "record_size_limit": (16, 64, 2 ** 14 + 1),
    "ticketLifetime": (21, 1, 7 * 24 * 60 * 60),
    "max_early_data": (66, 1, 2 ** 64),
    "ticket_count": (17, 0, 2 ** 16 - 1),
    "dc_valid_time": (21, None, 604800),
}


def _shapes_c19_3(tier):
    out = [dict(field=f) for f in sorted(SCALARS)]
    out += [dict(field="keysizes"), dict(field="versions"),
            dict(field="flags")]
    return out


@obligation("C19.3", _shapes_c19_3, functions=HS_FUNCS,
            assumes=["one scalar field (or the min/max pair) is a symbolic "
                     "integer, everything else default"],
            max_paths=5000)
def c19_3(I, shape):
    """values outside the documented domains raise ValueError, values inside
    are accepted, nothing else is raised, the receiver is untouched"""
    f = shape["field"]
    s = HandshakeSettings()
    if f in SCALARS:
        bits, lo, hi = SCALARS[f]
        x = I.uint(bits, f)
        setattr(s, f, x)
        inside = AND(True if lo is None else x >= lo, x <= hi)
        if f == "minKeySize":
            inside = AND(inside, x <= s.maxKeySize)
        if f == "maxKeySize":
            inside = AND(inside, x >= s.minKeySize)
    elif f == "keysizes":
        a = I.uint(16, "minKeySize")
        b = I.uint(16, "maxKeySize")
        s.minKeySize, s.maxKeySize = a, b
        inside = AND(a >= 512, a <= 16384, b >= 512, b <= 16384, a <= b)
    elif f == "versions":
        a = I.int_range(0, 5, "minminor")
        b = I.int_range(0, 5, "maxminor")
        s.minVersion, s.maxVersion = (3, a), (3, b)
        inside = AND(a <= 4, b <= 4, a <= b)
    else:
        # EMS implication and boolean-ness
        ems = I.int_range(0, 2, "useEMS")
        req = I.int_range(0, 2, "requireEMS")
        etm = I.int_range(0, 2, "useEtM")
        s.useExtendedMasterSecret = ems
        s.requireExtendedMasterSecret = req
        s.useEncryptThenMAC = etm
        inside = AND(ems <= 1, req <= 1, etm <= 1, IMPLIES(req == 1, ems == 1))
    before = snapshot(s)
    try:
        v = s.validate()
        accepted = True
    except ValueError:
        accepted = False
    except Exception as e:
        I.fail("validate raised %s instead of ValueError" % type(e).__name__)
        return
    I.check(IFF(accepted, inside), "accepted-iff-inside-documented-domain")
    I.check(snap_equal(before, snapshot(s)), "receiver-unchanged")
    if accepted:
        I.check(snap_equal(snapshot(v), snapshot(v.validate())),
                "validate-idempotent")


# ---------------------------------------------------------------------------
# C19.4  pairs of validated settings between two live endpoints
# ---------------------------------------------------------------------------
from models import pair as P
from models.hello import settings_family
from obl.C03 import PAIR_RND12, _pair12_patches
from tlslite.constants import CipherSuite, ContentType
from symx.core import seq_eq


def _shapes_c19_4(tier):
    names = sorted(settings_family())
    out = []
    for a in names:
        for b in names:
            if tier == "quick" and a != b and \
                    (names.index(a) + names.index(b)) % 3:
                continue
            out.append(dict(client=a, server=b))
    return out


@obligation("C19.4", _shapes_c19_4,
            functions=["tlslite.handshakesettings:HandshakeSettings.validate",
                       "tlslite.tlsconnection:TLSConnection."
                       "_handshakeClientAsyncHelper",
                       "tlslite.tlsconnection:TLSConnection."
                       "_handshakeServerAsyncHelper",
                       "tlslite.constants:CipherSuite._filterSuites"],
            assumes=P.PAIR_ASSUMES + [
                "client and server settings are taken from the fixed family "
                "of 13 validated HandshakeSettings (version ranges, cipher / "
                "MAC / key-exchange / curve restrictions); RSA server "
                "certificate; tickets off"],
            patches=_pair12_patches, max_paths=64, timeout=(600, 1800),
            also=("C03",))
def c19_4(I, shape):
    """for every pair of validated settings the handshake either completes on
    both sides - then version and suite agree and lie inside both settings -
    or fails on both sides with a fatal alert on the wire; identical settings
    always connect; nothing else (no raw exception, no one-sided completion,
    no stall)"""
    fam = settings_family()
    cset, sset = fam[shape["client"]], fam[shape["server"]]
    import copy
    cset, sset = copy.copy(cset), copy.copy(sset)
    cset.ticket_count = sset.ticket_count = 0
    sc = P.Scenario(I, PAIR_RND12, cset, sset, server_cred="rsa")
    sc.run()
    for ep, nm in ((sc.cep, "client"), (sc.sep, "server")):
        I.check(ep.crash is None, "no-raw-exception-from-the-handshake",
                detail=lambda: dict(side=nm, tb=ep.crash))
        I.check(ep.done, "no-stall", detail=lambda: dict(side=nm))
    cdone, sdone = sc.completed(sc.cep), sc.completed(sc.sep)
    I.check(cdone == sdone, "completion-is-mutual",
            detail=lambda: dict(c=repr(sc.cep.error), s=repr(sc.sep.error)))
    if shape["client"] == shape["server"]:
        I.check(cdone and sdone, "identical-settings-connect",
                detail=lambda: dict(c=repr(sc.cep.error),
                                    s=repr(sc.sep.error)))
    if not (cdone and sdone):
        recs = P.wire_records(sc.wire)
        I.check(any(ct == ContentType.alert for who, ct, ver, p in recs),
                "a-failed-negotiation-sends-an-alert")
        I.cover("refused")
        return
    c, s = sc.c, sc.s
    v = c.version
    I.check(c.version == s.version, "version-agreed")
    I.check(cset.minVersion <= v <= cset.maxVersion and
            sset.minVersion <= v <= sset.maxVersion,
            "version-inside-both-settings",
            detail=lambda: dict(v=v))
    suite = c.session.cipherSuite
    I.check(suite == s.session.cipherSuite, "suite-agreed")
    for st, nm in ((cset, "client"), (sset, "server")):
        I.check(suite in CipherSuite._filterSuites([suite], st, v),
                "suite-inside-%s-settings" % nm,
                detail=lambda: dict(suite=hex(suite)))
    I.check(seq_eq(list(c.session.masterSecret),
                   list(s.session.masterSecret)), "master-secret-agreed")


def _shapes_c19_5(tier):
    out = []
    for grp in (("ffdhe2048", "ffdhe3072") if tier == "quick"
                else ("ffdhe2048", "ffdhe3072", "ffdhe4096")):
        for share in ("none", "ec-only"):
            out.append(dict(group=grp, client_shares=share))
    out.append(dict(group="secp384r1", client_shares="ec-only"))
    return out


@obligation("C19.5", _shapes_c19_5,
            functions=["tlslite.handshakesettings:HandshakeSettings.validate",
                       "tlslite.tlsconnection:TLSConnection."
                       "_clientSendClientHello",
                       "tlslite.tlsconnection:TLSConnection."
                       "_clientGetServerHello",
                       "tlslite.tlsconnection:TLSConnection."
                       "_serverGetClientHello"],
            assumes=P.PAIR_ASSUMES + [
                "TLS 1.3 only on both sides; the server allows exactly one "
                "group (an FFDHE group, or secp384r1), the client allows "
                "that group among its defaults but sends no key share for it "
                "(no shares at all, or x25519 only): the server must answer "
                "with a HelloRetryRequest and the retried handshake must "
                "complete"],
            patches=_pair12_patches, max_paths=64, timeout=(600, 1800))
def c19_5(I, shape):
    """compatible settings connect through a HelloRetryRequest too: the only
    common group is one the client offered no share for"""
    from tlslite.handshakesettings import HandshakeSettings
    grp = shape["group"]
    cset, sset = HandshakeSettings(), HandshakeSettings()
    for s in (cset, sset):
        s.minVersion = s.maxVersion = (3, 4)
        s.ticket_count = 0
    cset.keyShares = [] if shape["client_shares"] == "none" else ["x25519"]
    if grp.startswith("ffdhe"):
        sset.eccCurves = []
        sset.dhGroups = [grp]
    else:
        sset.eccCurves = [grp]
        sset.dhGroups = []
    sset.keyShares = []
    cset, sset = cset.validate(), sset.validate()
    sc = P.Scenario(I, PAIR_RND12, cset, sset, server_cred="rsa")
    sc.run()
    for ep, nm in ((sc.cep, "client"), (sc.sep, "server")):
        I.check(ep.crash is None, "no-raw-exception-from-the-handshake",
                detail=lambda ep=ep, nm=nm: dict(side=nm, tb=ep.crash))
    I.check(sc.both_completed(), "compatible-settings-connect-after-hrr",
            detail=lambda: dict(c=repr(sc.cep.error), s=repr(sc.sep.error)))
    if not sc.both_completed():
        return
    recs = P.wire_records(sc.wire)
    nch = sum(1 for who, ct, ver, p in recs
              if who == "c" and ct == ContentType.handshake and
              len(p) and int(p[0]) == 1)
    I.check(nch == 2, "a-hello-retry-request-was-needed")
    I.check(sc.c.version == (3, 4) and sc.s.version == (3, 4) and
            sc.c.session.cipherSuite == sc.s.session.cipherSuite,
            "version-and-suite-agree")
