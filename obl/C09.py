"""C09 - symmetric primitives and key derivation compute the standard functions.

Kernels are checked as exact bit-vector equivalences against an independent
transcription of the RFC text; modes and derivations are checked with the
kernels / hashes abstracted as uninterpreted functions."""
import types

import z3

from lib.framework import obligation
from symx.core import (SymInt, SymBool, SymBytes, AND, OR, NOT, IFF, seq_eq,
                       is_concrete_mode, assume, ite, mk_bytearray,
                       sym_from_bytes, sym_range, sym_min, sym_max)
from symx.shims import sym_pack, sym_unpack
from symx.uf import apply_uf
from models.fixtures import newbuf, py_compare_digest
from models.hashmodel import (HASHLIB, HMACMOD, hash_bytes, hmac_bytes,
                              HASH_ASSUMES, SIZES)

import tlslite.utils.chacha as chacha_mod
from tlslite.utils.chacha import ChaCha
import tlslite.utils.poly1305 as poly_mod
from tlslite.utils.poly1305 import Poly1305
import tlslite.utils.chacha20_poly1305 as cp_mod
import tlslite.mathtls as mathtls
import tlslite.utils.cryptomath as cryptomath
import tlslite.utils.codec as codec
from tlslite.constants import CipherSuite


def _ident(x):
    return x


class _StructShim(object):
    pack = staticmethod(sym_pack)
    unpack = staticmethod(sym_unpack)
    import struct as _s
    error = _s.error


def _rotl(v, c):
    """32-bit rotate left on plain Python/SymInt values (reference)"""
    return ((v << c) & 0xffffffff) | (v >> (32 - c))


# ---------------------------------------------------------------------------
# C09.1  ChaCha20 kernels (RFC 8439 section 2.1 - 2.4)
# ---------------------------------------------------------------------------

def ref_quarter_round(x, a, b, c, d):
    xa, xb, xc, xd = x[a], x[b], x[c], x[d]
    xa = (xa + xb) & 0xffffffff; xd ^= xa; xd = _rotl(xd, 16)
    xc = (xc + xd) & 0xffffffff; xb ^= xc; xb = _rotl(xb, 12)
    xa = (xa + xb) & 0xffffffff; xd ^= xa; xd = _rotl(xd, 8)
    xc = (xc + xd) & 0xffffffff; xb ^= xc; xb = _rotl(xb, 7)
    x[a], x[b], x[c], x[d] = xa, xb, xc, xd


def ref_inner_block(x):
    ref_quarter_round(x, 0, 4, 8, 12)
    ref_quarter_round(x, 1, 5, 9, 13)
    ref_quarter_round(x, 2, 6, 10, 14)
    ref_quarter_round(x, 3, 7, 11, 15)
    ref_quarter_round(x, 0, 5, 10, 15)
    ref_quarter_round(x, 1, 6, 11, 12)
    ref_quarter_round(x, 2, 7, 8, 13)
    ref_quarter_round(x, 3, 4, 9, 14)


def ref_chacha_block(key, counter, nonce):
    state = [0x61707865, 0x3320646e, 0x79622d32, 0x6b206574] + \
        list(key) + [counter] + list(nonce)
    w = list(state)
    for _ in range(10):
        ref_inner_block(w)
    return [(s + t) & 0xffffffff for s, t in zip(state, w)]


def cb_model(key, counter, nonce, rounds=20):
    """chacha_block abstracted: uninterpreted function of the 12 input words
    (the block function itself is the subject of the 'block' shape)"""
    inp = []
    for w in list(key) + [counter] + list(nonce):
        inp += [w & 0xff, (w >> 8) & 0xff, (w >> 16) & 0xff, (w >> 24) & 0xff]
    ob = apply_uf("CB%d" % rounds, inp, 64)
    return [ob[4 * i] | (ob[4 * i + 1] << 8) | (ob[4 * i + 2] << 16) |
            (ob[4 * i + 3] << 24) for i in range(16)]


def _chacha_proxies(shape):
    stubs = []
    if shape.get("abstract_block"):
        stubs.append((ChaCha, "chacha_block", staticmethod(cb_model)))
    return ([(chacha_mod, "bytearray", mk_bytearray),
             (chacha_mod, "struct", _StructShim),
             (chacha_mod, "compat26Str", _ident),
             (chacha_mod, "range", sym_range)], stubs)


def _shapes_c09_1(tier):
    out = [dict(kind="quarter_round", idx=[0, 4, 8, 12]),
           dict(kind="quarter_round", idx=[3, 4, 9, 14]),
           dict(kind="rotl32", c=7), dict(kind="rotl32", c=16),
           dict(kind="double_round"),
           dict(kind="block", rounds=20),
           dict(kind="bytes")]
    out.append(dict(kind="encrypt", n=3, abstract_block=False))
    for n in ([0, 1, 63, 64, 65, 130] if tier == "quick"
              else list(range(0, 200, 7)) + [63, 64, 65, 127, 128, 129, 257]):
        out.append(dict(kind="encrypt", n=n, abstract_block=True))
    return out


@obligation("C09.1", _shapes_c09_1,
            functions=["tlslite.utils.chacha:ChaCha.quarter_round",
                       "tlslite.utils.chacha:ChaCha.double_round",
                       "tlslite.utils.chacha:ChaCha.chacha_block",
                       "tlslite.utils.chacha:ChaCha.rotl32",
                       "tlslite.utils.chacha:ChaCha.word_to_bytearray",
                       "tlslite.utils.chacha:ChaCha._bytearray_to_words",
                       "tlslite.utils.chacha:ChaCha.encrypt",
                       "tlslite.utils.chacha:ChaCha.__init__"],
            assumes=["state words are 32-bit unsigned (what _bytearray_to_words"
                     " produces); block counter + number of blocks < 2^32",
                     "encrypt shapes with abstract_block: chacha_block replaced "
                     "by an uninterpreted function of its 12 input words in "
                     "code and reference alike (the block function is the "
                     "'block' shape); one encrypt shape keeps the real block",
                     "proxies: struct.pack/unpack shims, bytearray->SymBytes"],
            patches=_chacha_proxies, timeout=(300, 1200))
def c09_1(I, shape):
    """ChaCha20 quarter round, double round, block function, serialisation
    and keystream XOR equal RFC 8439"""
    kind = shape["kind"]
    if kind == "rotl32":
        v = I.uint(32, "v")
        c = shape["c"]
        I.check(ChaCha.rotl32(v, c) == _rotl(v, c), "rotl32")
        # and against z3's own rotate
        if not is_concrete_mode():
            r = ChaCha.rotl32(v, c)
            want = z3.RotateLeft(z3.Extract(31, 0, v.e), c)
            I.check(SymBool(z3.Extract(31, 0, r.at(33)) == want),
                    "rotl32-vs-z3-rotate")
        return
    if kind == "quarter_round":
        x = [I.uint(32, "x") for _ in range(16)]
        y = list(x)
        a, b, c, d = shape["idx"]
        ChaCha.quarter_round(x, a, b, c, d)
        ref_quarter_round(y, a, b, c, d)
        I.check(AND([p == q for p, q in zip(x, y)]), "quarter-round")
        return
    if kind == "double_round":
        x = [I.uint(32, "x") for _ in range(16)]
        y = list(x)
        ChaCha.double_round(x)
        ref_inner_block(y)
        I.check(AND([p == q for p, q in zip(x, y)]), "double-round")
        return
    key = [I.uint(32, "k") for _ in range(8)]
    nonce = [I.uint(32, "n") for _ in range(3)]
    if kind == "block":
        ctr = I.uint(32, "ctr")
        got = ChaCha.chacha_block(key, ctr, nonce, shape["rounds"])
        want = ref_chacha_block(key, ctr, nonce)
        I.check(AND(len(got) == 16, AND([p == q for p, q in zip(got, want)])),
                "chacha-block")
        return
    if kind == "bytes":
        words = [I.uint(32, "w") for _ in range(16)]
        b = ChaCha.word_to_bytearray(words)
        want = []
        for w in words:
            want += [w & 0xff, (w >> 8) & 0xff, (w >> 16) & 0xff, w >> 24]
        I.check(AND(len(b) == 64, seq_eq(b, want)), "word-to-bytes-le")
        back = ChaCha._bytearray_to_words(b)
        I.check(AND(len(back) == 16,
                    AND([p == q for p, q in zip(back, words)])),
                "bytes-to-words-le")
        return
    if kind == "encrypt":
        n = shape["n"]
        kb = I.bytes(32, "key")
        nb = I.bytes(12, "nonce")
        ctr = I.int_range(0, 1 << 20, "ctr")
        pt = I.bytes(n, "pt")
        c = ChaCha(newbuf(list(kb)), newbuf(list(nb)), counter=ctr)
        ct = c.encrypt(newbuf(list(pt)))

        def words(bs):
            return [bs[4 * i] | (bs[4 * i + 1] << 8) | (bs[4 * i + 2] << 16) |
                    (bs[4 * i + 3] << 24) for i in range(len(bs) // 4)]
        blockfn = cb_model if shape.get("abstract_block") else \
            ref_chacha_block
        want = []
        for blk in range((n + 63) // 64):
            ks = blockfn(words(kb), ctr + blk, words(nb))
            ksb = []
            for w in ks:
                ksb += [w & 0xff, (w >> 8) & 0xff, (w >> 16) & 0xff, w >> 24]
            for j in range(64):
                if 64 * blk + j < n:
                    want.append(pt[64 * blk + j] ^ ksb[j])
        I.check(AND(len(ct) == n, seq_eq(ct, want) if len(ct) == n
                    else False), "chacha20-encrypt")
        # decrypt is the same keystream
        c2 = ChaCha(newbuf(list(kb)), newbuf(list(nb)), counter=ctr)
        back = c2.decrypt(newbuf(list(ct)))
        I.check(seq_eq(back, pt), "chacha20-decrypt-inverts")
        return
    raise AssertionError(kind)


# ---------------------------------------------------------------------------
# C09.11 / C09.12 / C09.13  PRFs, HKDF, calc_key over the hash model
# ---------------------------------------------------------------------------

def _kdf_proxies(shape):
    return ([(mathtls, "bytearray", mk_bytearray),
             (cryptomath, "bytearray", mk_bytearray),
             (codec, "bytearray", mk_bytearray),
             (codec, "bytes_to_int", sym_from_bytes),
             (codec, "pack", sym_pack),
             (mathtls, "compatHMAC", _ident),
             (cryptomath, "compatHMAC", _ident),
             (cryptomath, "compat26Str", _ident),
             (mathtls, "min", sym_min)],
            [(mathtls, "hmac", HMACMOD), (mathtls, "hashlib", HASHLIB),
             (cryptomath, "hmac", HMACMOD), (cryptomath, "hashlib", HASHLIB)])


def ref_p_hash(alg, secret, seed, length):
    out = []
    a = list(seed)
    while len(out) < length:
        a = list(hmac_bytes(alg, secret, a))
        out += list(hmac_bytes(alg, secret, a + list(seed)))
    return out[:length]


def ref_prf_10(secret, label, seed, length):
    n = len(secret)
    half = (n + 1) // 2
    s1 = list(secret)[:half]
    s2 = list(secret)[n - half:]
    ls = list(label) + list(seed)
    a = ref_p_hash("md5", s1, ls, length)
    b = ref_p_hash("sha1", s2, ls, length)
    return [x ^ y for x, y in zip(a, b)]


def ref_prf_ssl(secret, seed, length):
    out = []
    i = 0
    while len(out) < length:
        salt = [ord('A') + i] * (i + 1)
        inner = hash_bytes("sha1", salt + list(secret) + list(seed))
        out += list(hash_bytes("md5", list(secret) + list(inner)))
        i += 1
    return out[:length]


def ref_hkdf_expand(alg, prk, info, length):
    out = []
    t = []
    i = 1
    while len(out) < length:
        t = list(hmac_bytes(alg, prk, t + list(info) + [i]))
        out += t
        i += 1
    return out[:length]


def ref_hkdf_label(alg, secret, label, ctx, length):
    full = list(b"tls13 ") + list(label)
    info = [length >> 8, length & 0xff, len(full)] + full + \
        [len(ctx)] + list(ctx)
    return ref_hkdf_expand(alg, secret, info, length)


def _shapes_c09_11(tier):
    out = []
    secrets = (0, 1, 3, 48) if tier == "quick" else (0, 1, 2, 3, 5, 32, 48)
    for slen in secrets:
        for alg, lens in (("sha256", (1, 12, 32, 33, 65)),
                          ("sha384", (12, 48, 49, 97))):
            for L in (lens if tier != "quick" else lens[:4]):
                out.append(dict(fn="P_hash", alg=alg, slen=slen, L=L))
        for L in ((12, 16, 17, 21, 48) if tier == "quick"
                  else (1, 12, 16, 17, 20, 21, 40, 41, 48, 104)):
            out.append(dict(fn="PRF", slen=slen, L=L))
        for L in ((16, 17, 48) if tier == "quick" else (1, 16, 17, 32, 48,
                                                        104)):
            out.append(dict(fn="PRF_SSL", slen=slen, L=L))
    for L in (12, 48, 72):
        out.append(dict(fn="PRF_1_2", slen=48, L=L))
        out.append(dict(fn="PRF_1_2_SHA384", slen=48, L=L))
    return out


@obligation("C09.11", _shapes_c09_11,
            functions=["tlslite.mathtls:P_hash", "tlslite.mathtls:PRF",
                       "tlslite.mathtls:PRF_1_2",
                       "tlslite.mathtls:PRF_1_2_SHA384",
                       "tlslite.mathtls:PRF_SSL"],
            assumes=HASH_ASSUMES + [
                "secret/seed contents symbolic, lengths enumerated (secret "
                "incl. 0 and odd lengths; seed 5 bytes; label 'test label')",
                "reference: RFC 5246 section 5 / RFC 2246 section 5 / RFC "
                "6101 section 6.1 transcribed over the same hash model"],
            patches=_kdf_proxies)
def c09_11(I, shape):
    """P_hash A(i) chain, TLS 1.0 secret split and XOR, SSLv3 PRF"""
    slen = shape["slen"]
    L = shape["L"]
    secret = I.bytes(slen, "secret")
    seed = I.bytes(5, "seed")
    label = b"test label"
    fn = shape["fn"]
    if fn == "P_hash":
        got = mathtls.P_hash(shape["alg"], newbuf(list(secret)),
                             newbuf(list(seed)), L)
        want = ref_p_hash(shape["alg"], secret, seed, L)
    elif fn == "PRF":
        got = mathtls.PRF(newbuf(list(secret)), bytearray(label),
                          newbuf(list(seed)), L)
        want = ref_prf_10(secret, label, seed, L)
    elif fn == "PRF_SSL":
        got = mathtls.PRF_SSL(newbuf(list(secret)), newbuf(list(seed)), L)
        want = ref_prf_ssl(secret, seed, L)
    elif fn == "PRF_1_2":
        got = mathtls.PRF_1_2(newbuf(list(secret)), bytearray(label),
                              newbuf(list(seed)), L)
        want = ref_p_hash("sha256", secret, list(label) + list(seed), L)
    else:
        got = mathtls.PRF_1_2_SHA384(newbuf(list(secret)), bytearray(label),
                                     newbuf(list(seed)), L)
        want = ref_p_hash("sha384", secret, list(label) + list(seed), L)
    I.check(AND(len(got) == L, seq_eq(got, want) if len(got) == L else False),
            "prf-equals-rfc")


def _shapes_c09_12(tier):
    out = []
    for alg in ("sha256", "sha384"):
        hl = SIZES[alg][0]
        for L in ((0, 1, hl, hl + 1) if tier == "quick"
                  else (0, 1, 12, 16, hl - 1, hl, hl + 1, 2 * hl, 2 * hl + 1)):
            out.append(dict(fn="HKDF_expand", alg=alg, L=L, info=3))
            out.append(dict(fn="HKDF_expand_label", alg=alg, L=L, ctx=0))
            out.append(dict(fn="HKDF_expand_label", alg=alg, L=L, ctx=hl))
        out.append(dict(fn="derive_secret", alg=alg, hh=True))
        out.append(dict(fn="derive_secret", alg=alg, hh=False))
    return out


@obligation("C09.12", _shapes_c09_12,
            functions=["tlslite.utils.cryptomath:HKDF_expand",
                       "tlslite.utils.cryptomath:HKDF_expand_label",
                       "tlslite.utils.cryptomath:derive_secret",
                       "tlslite.utils.cryptomath:secureHMAC",
                       "tlslite.utils.cryptomath:secureHash"],
            assumes=HASH_ASSUMES + [
                "PRK / context contents symbolic; label 'c hs traffic'; "
                "output lengths enumerated around the hash length",
                "reference: RFC 5869 section 2.3 and RFC 8446 section 7.1"],
            patches=_kdf_proxies)
def c09_12(I, shape):
    """HKDF-Expand, HKDF-Expand-Label and Derive-Secret"""
    alg = shape["alg"]
    hl = SIZES[alg][0]
    prk = I.bytes(hl, "prk")
    fn = shape["fn"]
    if fn == "HKDF_expand":
        info = I.bytes(shape["info"], "info")
        L = shape["L"]
        got = cryptomath.HKDF_expand(newbuf(list(prk)), newbuf(list(info)), L,
                                     alg)
        want = ref_hkdf_expand(alg, prk, info, L)
    elif fn == "HKDF_expand_label":
        ctx = I.bytes(shape["ctx"], "ctx")
        L = shape["L"]
        got = cryptomath.HKDF_expand_label(newbuf(list(prk)),
                                           bytearray(b"c hs traffic"),
                                           newbuf(list(ctx)), L, alg)
        want = ref_hkdf_label(alg, prk, b"c hs traffic", ctx, L)
    else:
        L = hl
        if shape["hh"]:
            tr = I.bytes(hl, "transcript")

            class HH(object):
                def digest(self, name=None):
                    if name != alg:
                        raise AssertionError("wrong transcript hash "
                                             "requested: %r" % (name,))
                    return newbuf(list(tr))
            got = cryptomath.derive_secret(newbuf(list(prk)),
                                           bytearray(b"derived"), HH(), alg)
            want = ref_hkdf_label(alg, prk, b"derived", tr, hl)
        else:
            got = cryptomath.derive_secret(newbuf(list(prk)),
                                           bytearray(b"derived"), None, alg)
            want = ref_hkdf_label(alg, prk, b"derived",
                                  hash_bytes(alg, []), hl)
    I.check(AND(len(got) == L, seq_eq(got, want) if len(got) == L else False),
            "hkdf-equals-rfc")


SUITE_256 = CipherSuite.TLS_RSA_WITH_AES_128_GCM_SHA256
SUITE_384 = CipherSuite.TLS_RSA_WITH_AES_256_GCM_SHA384
SUITE_CBC = CipherSuite.TLS_RSA_WITH_AES_128_CBC_SHA


def _shapes_c09_13(tier):
    out = []
    for ver in ((3, 0), (3, 1), (3, 2), (3, 3)):
        for label in ("master secret", "key expansion", "client finished",
                      "server finished", "extended master secret"):
            if ver == (3, 0) and label == "extended master secret":
                continue
            for suite in ((SUITE_256, SUITE_384, SUITE_CBC) if ver == (3, 3)
                          else (SUITE_CBC,)):
                out.append(dict(version=list(ver), label=label, suite=suite))
    return out


@obligation("C09.13", _shapes_c09_13,
            functions=["tlslite.mathtls:calc_key", "tlslite.mathtls:PRF",
                       "tlslite.mathtls:PRF_1_2",
                       "tlslite.mathtls:PRF_1_2_SHA384",
                       "tlslite.mathtls:PRF_SSL"],
            assumes=HASH_ASSUMES + [
                "transcript hashes are symbolic byte strings supplied by a "
                "stub HandshakeHashes that records which digest was asked "
                "for (HandshakeHashes itself: C04.2)",
                "reference: RFC 5246 8.1/6.3/7.4.9, RFC 7627 section 4, "
                "RFC 6101 6.1/6.2.2/5.6.9"],
            patches=_kdf_proxies)
def c09_13(I, shape):
    """calc_key: PRF choice, seed order and transcript hash per version,
    suite and label"""
    version = tuple(shape["version"])
    label = shape["label"].encode()
    suite = shape["suite"]
    secret = I.bytes(48, "secret")
    cr = I.bytes(32, "cr")
    sr = I.bytes(32, "sr")
    digests = {}
    for name, n in (("md5", 16), ("sha1", 20), ("sha256", 32), ("sha384", 48)):
        digests[name] = I.bytes(n, "hh_" + name)
    ssl_out = I.bytes(36, "digestSSL")
    asked = []

    class HH(object):
        def digest(self, name=None):
            asked.append(name)
            if name is None:
                return newbuf(list(digests["md5"]) + list(digests["sha1"]))
            return newbuf(list(digests[name]))

        def digestSSL(self, ms, sender):
            asked.append(("ssl", bytes(sender)))
            if not bool(seq_eq(ms, secret)):
                raise AssertionError("digestSSL called with another secret")
            return newbuf(list(ssl_out))
    L = {"master secret": 48, "extended master secret": 48,
         "key expansion": 104}.get(shape["label"], 12)
    got = mathtls.calc_key(version, newbuf(list(secret)), suite,
                           label, handshake_hashes=HH(),
                           client_random=newbuf(list(cr)),
                           server_random=newbuf(list(sr)), output_length=L)
    if shape["label"] == "master secret":
        seed = list(cr) + list(sr)
    elif shape["label"] == "key expansion":
        seed = list(sr) + list(cr)
    elif version in ((3, 1), (3, 2)):
        seed = list(digests["md5"]) + list(digests["sha1"])
    elif suite == SUITE_384:
        seed = list(digests["sha384"])
    else:
        seed = list(digests["sha256"])
    if version == (3, 0):
        if shape["label"].endswith("finished"):
            want = list(ssl_out)
            sender = b"CLNT" if shape["label"].startswith("client") \
                else b"SRVR"
            I.check(asked == [("ssl", sender)], "sslv3-finished-sender")
            I.check(seq_eq(got, want), "calc-key-equals-rfc")
            return
        want = ref_prf_ssl(secret, seed, L)
    elif version in ((3, 1), (3, 2)):
        want = ref_prf_10(secret, label, seed, L)
    elif suite == SUITE_384:
        want = ref_p_hash("sha384", secret, list(label) + seed, L)
    else:
        want = ref_p_hash("sha256", secret, list(label) + seed, L)
    I.check(AND(len(got) == L, seq_eq(got, want) if len(got) == L else False),
            "calc-key-equals-rfc")


# ---------------------------------------------------------------------------
# C09.2  Poly1305 (RFC 8439 section 2.5)
# ---------------------------------------------------------------------------
import symx.core as _core


def _poly_proxies(shape):
    return ([(poly_mod, "bytearray", mk_bytearray),
             (poly_mod, "range", sym_range),
             (_core, "ABSTRACT_ARITH", 300)], [])


def ref_poly1305(key, msg):
    def le(bs):
        v = 0
        for i, b in enumerate(bs):
            v = v | (b << (8 * i))
        return v
    r = le(key[0:16]) & 0x0ffffffc0ffffffc0ffffffc0fffffff
    s_ = le(key[16:32])
    p = (1 << 130) - 5
    acc = 0
    msg = list(msg)
    for i in range(0, len(msg), 16):
        blk = msg[i:i + 16]
        n = le(blk) | (1 << (8 * len(blk)))
        acc = ((acc + n) * r) % p
    acc = acc + s_
    return [(acc >> (8 * i)) & 0xff for i in range(16)]


def _shapes_c09_2(tier):
    ns = [0, 1, 15, 16, 17, 32, 33] if tier == "quick" else list(range(0, 50))
    return [dict(n=n) for n in ns] + [dict(n=-1)]


@obligation("C09.2", _shapes_c09_2,
            functions=["tlslite.utils.poly1305:Poly1305.__init__",
                       "tlslite.utils.poly1305:Poly1305.create_tag",
                       "tlslite.utils.poly1305:Poly1305.le_bytes_to_num",
                       "tlslite.utils.poly1305:Poly1305.num_to_16_le_bytes"],
            assumes=["the two field operations (130-bit multiplication and "
                     "reduction mod 2^130-5) are uninterpreted functions "
                     "MUL/MOD<modulus> with range axioms, shared by code and "
                     "reference; everything around them - clamping, block "
                     "split, 0x01 append, little-endian conversion, order of "
                     "operations, final +s and truncation - is exact",
                     "Poly1305.P == 2**130-5 is checked concretely"],
            patches=_poly_proxies)
def c09_2(I, shape):
    """Poly1305 tag equals RFC 8439 2.5.1 for every key and message"""
    n = shape["n"]
    if n < 0:
        I.check(Poly1305.P == (1 << 130) - 5, "poly1305-modulus")
        v = I.uint(128, "v")
        b = Poly1305.num_to_16_le_bytes(v)
        I.check(Poly1305.le_bytes_to_num(b) == v, "le-roundtrip")
        return
    key = I.bytes(32, "key")
    msg = I.bytes(n, "msg")
    tag = Poly1305(newbuf(list(key))).create_tag(newbuf(list(msg)))
    want = ref_poly1305(list(key), list(msg))
    I.check(AND(len(tag) == 16, seq_eq(tag, want)), "poly1305-tag")


# ---------------------------------------------------------------------------
# C09.6 - C09.9  modes of operation with the block function abstracted
# ---------------------------------------------------------------------------
import tlslite.utils.python_aes as paes
import tlslite.utils.aesgcm as gcm_mod
import tlslite.utils.aesccm as ccm_mod
from symx.shims import sym_int_to_bytes
from symx.uf import _fn, cat


class ModelRijndael(object):
    """AES block function under one fixed key: a bijection on 16-byte blocks
    (uninterpreted E with inverse D, axioms instantiated at each use)"""

    inverse_axioms = True

    def __init__(self, key=None, block_size=16):
        self.block_size = 16

    def encrypt(self, block):
        if len(block) != 16:
            raise ValueError("wrong block length")
        y = apply_uf("AESE", list(block), 16)
        if self.inverse_axioms and not is_concrete_mode():
            assume(_fn("AESD", 16, 16)(cat(y)) == cat(list(block)))
        return y

    def decrypt(self, block):
        if len(block) != 16:
            raise ValueError("wrong block length")
        x = apply_uf("AESD", list(block), 16)
        if not is_concrete_mode():
            assume(_fn("AESE", 16, 16)(cat(x)) == cat(list(block)))
        return x


class ModelRijndaelEnc(ModelRijndael):
    """for modes that only ever use the forward direction (CTR, CBC-MAC,
    GCM, CCM): no inverse axioms are instantiated"""
    inverse_axioms = False


def E(block):
    return list(apply_uf("AESE", list(block), 16))


def xor(a, b):
    return [x ^ y for x, y in zip(a, b)]


def _mode_proxies(shape):
    def gcm_shift(x):
        return (x >> 1) ^ ite((x & 1) == 1, 0xe1 << 120, 0)
    return ([(paes, "bytearray", mk_bytearray),
             (gcm_mod, "bytearray", mk_bytearray),
             (ccm_mod, "bytearray", mk_bytearray),
             (cp_mod, "bytearray", mk_bytearray),
             (poly_mod, "bytearray", mk_bytearray),
             (chacha_mod, "bytearray", mk_bytearray),
             (chacha_mod, "struct", _StructShim),
             (chacha_mod, "compat26Str", _ident),
             (cp_mod, "struct", _StructShim),
             (cp_mod, "ct_compare_digest", py_compare_digest),
             (gcm_mod, "ct_compare_digest", py_compare_digest),
             (cryptomath, "bytes_to_int", sym_from_bytes),
             (cryptomath, "int_to_bytes", sym_int_to_bytes),
             (cryptomath, "bytearray", mk_bytearray),
             (gcm_mod.AESGCM, "_gcmShift", staticmethod(gcm_shift))],
            [(paes, "Rijndael", ModelRijndaelEnc if shape.get("M") or
              shape.get("a") is not None else ModelRijndael)])


def _shapes_c09_6(tier):
    out = []
    for n in ((16, 32, 48) if tier == "quick" else (0, 16, 32, 48, 64)):
        out.append(dict(mode="cbc", n=n))
    for n in ((0, 1, 16, 17, 33) if tier == "quick"
              else (0, 1, 15, 16, 17, 31, 32, 33, 48, 49)):
        out.append(dict(mode="ctr", n=n, ivlen=16))
        out.append(dict(mode="ctr", n=n, ivlen=12))
    return out


@obligation("C09.6", _shapes_c09_6,
            functions=["tlslite.utils.python_aes:Python_AES.encrypt",
                       "tlslite.utils.python_aes:Python_AES.decrypt",
                       "tlslite.utils.python_aes:Python_AES_CTR.encrypt",
                       "tlslite.utils.python_aes:Python_AES_CTR._counter_update",
                       "tlslite.utils.python_aes:new"],
            assumes=["AES block function = uninterpreted bijection "
                     "(ModelRijndael; rijndael.py itself: C09.4)",
                     "CTR counter value symbolic over all 16 bytes"],
            patches=_mode_proxies)
def c09_6(I, shape):
    """CBC chaining incl. IV carried across calls; CTR keystream and counter"""
    n = shape["n"]
    key = bytearray(16)
    if shape["mode"] == "cbc":
        iv = I.bytes(16, "iv")
        p1 = I.bytes(n, "p1")
        p2 = I.bytes(16, "p2")
        enc = paes.new(key, 2, newbuf(list(iv)))
        c1 = enc.encrypt(newbuf(list(p1)))
        c2 = enc.encrypt(newbuf(list(p2)))
        want = []
        chain = list(iv)
        for blk in [list(p1)[i:i + 16] for i in range(0, n, 16)] + [list(p2)]:
            chain = E(xor(blk, chain))
            want += chain
        I.check(AND(len(c1) == n, len(c2) == 16,
                    seq_eq(list(c1) + list(c2), want)),
                "cbc-encrypt-chains-across-calls")
        dec = paes.new(key, 2, newbuf(list(iv)))
        d1 = dec.decrypt(newbuf(list(c1)))
        d2 = dec.decrypt(newbuf(list(c2)))
        I.check(AND(seq_eq(d1, p1), seq_eq(d2, p2)),
                "cbc-decrypt-inverts-across-calls")
        return
    ivlen = shape["ivlen"]
    ctr0 = I.bytes(16, "ctr")
    pt = I.bytes(n, "pt")
    c = paes.new(key, 6, newbuf(list(ctr0)[:ivlen]))
    c.counter = newbuf(list(ctr0))
    nblocks = (n + 15) // 16
    cint = sym_from_bytes(list(ctr0)) if not is_concrete_mode() \
        else int.from_bytes(bytes(ctr0), 'big')
    # no wrap of the 128-bit counter inside this message
    assume(cint + nblocks < (1 << 128))
    if ivlen < 16:
        # documented: the counter part must not reach all-ones
        low = 16 - ivlen
        for k in range(1, nblocks + 1):
            assume(((cint + k) & ((1 << (8 * low)) - 1)) !=
                   (1 << (8 * low)) - 1)
    try:
        ct = c.encrypt(newbuf(list(pt)))
    except OverflowError:
        I.fail("ctr-overflow-raised-without-overflow")
        return
    want = []
    for k in range(nblocks):
        blk = (cint + k)
        blkb = [(blk >> (8 * (15 - j))) & 0xff for j in range(16)]
        ks = E(blkb)
        want += ks
    want = xor(list(pt), want[:n])
    I.check(AND(len(ct) == n, seq_eq(ct, want)), "ctr-keystream")
    after = cint + nblocks
    I.check(seq_eq(c.counter, [(after >> (8 * (15 - j))) & 0xff
                               for j in range(16)]),
            "ctr-counter-advanced-by-blocks")


def _to16(v):
    return [(v >> (8 * (15 - j))) & 0xff for j in range(16)]


def _from16(b):
    v = 0
    for x in b:
        v = (v << 8) | x
    return v


def gfmul_model(self, y):
    """GHASH multiplication by H abstracted: uninterpreted function of
    (H, y) - AESGCM._mul itself is C09.3"""
    h = self._productTable[8]       # _reverseBits(1) == 8 holds H
    out = apply_uf("GFMUL", _to16(h) + _to16(y), 16)
    return _from16(list(out))


def ref_ghash(h, aad, ct):
    def mulh(v):
        return list(apply_uf("GFMUL", list(h) + list(v), 16))
    y = [0] * 16
    for data in (list(aad), list(ct)):
        for i in range(0, len(data), 16):
            blk = data[i:i + 16]
            blk = blk + [0] * (16 - len(blk))
            y = mulh(xor(y, blk))
    la, lc = 8 * len(aad), 8 * len(ct)
    lens = [(la >> (8 * (7 - j))) & 0xff for j in range(8)] + \
        [(lc >> (8 * (7 - j))) & 0xff for j in range(8)]
    return mulh(xor(y, lens))


def ref_gcm_seal(nonce, pt, aad):
    h = E([0] * 16)
    j0 = list(nonce) + [0, 0, 0, 1]
    ct = []
    for i in range(0, len(pt), 16):
        ctr = list(nonce) + _to16(2 + i // 16)[12:]
        ct += xor(list(pt)[i:i + 16], E(ctr))
    tag = xor(ref_ghash(h, aad, ct), E(j0))
    return ct, tag


def _gcm_patches(shape):
    proxies, stubs = _mode_proxies(shape)
    return proxies, stubs + [(gcm_mod.AESGCM, "_mul", gfmul_model)]


def _aead_lengths(tier):
    if tier == "quick":
        return [(0, 0), (1, 0), (0, 13), (16, 13), (17, 5), (33, 13),
                (15, 16), (32, 17)]
    return [(p, a) for p in (0, 1, 15, 16, 17, 31, 32, 33, 48)
            for a in (0, 1, 5, 13, 16, 17, 33)]


def _shapes_aead(tier):
    return [dict(n=p, a=a) for p, a in _aead_lengths(tier)]


@obligation("C09.7", _shapes_aead,
            functions=["tlslite.utils.aesgcm:AESGCM.__init__",
                       "tlslite.utils.aesgcm:AESGCM.seal",
                       "tlslite.utils.aesgcm:AESGCM.open",
                       "tlslite.utils.aesgcm:AESGCM._auth",
                       "tlslite.utils.aesgcm:AESGCM._update",
                       "tlslite.utils.python_aes:Python_AES_CTR.encrypt"],
            assumes=["AES block function = uninterpreted bijection; GF(2^128) "
                     "multiplication by H = uninterpreted function of (H, y) "
                     "in code and reference (kernel: C09.3)",
                     "reference: NIST SP 800-38D section 7 (96-bit IV)",
                     "proxy: _gcmShift written with ite instead of a branch "
                     "(same function, no path split while building the table)"],
            patches=_gcm_patches)
def c09_7(I, shape):
    """AES-GCM seal = SP 800-38D; open inverts it and refuses any other tag"""
    n, a = shape["n"], shape["a"]
    nonce = I.bytes(12, "nonce")
    pt = I.bytes(n, "pt")
    aad = I.bytes(a, "aad")
    g = gcm_mod.AESGCM(bytearray(16), "python", ModelRijndaelEnc().encrypt)
    out = g.seal(newbuf(list(nonce)), newbuf(list(pt)), newbuf(list(aad)))
    ct, tag = ref_gcm_seal(nonce, pt, aad)
    I.check(AND(len(out) == n + 16, seq_eq(out, ct + tag)), "gcm-seal")
    back = g.open(newbuf(list(nonce)), newbuf(list(out)), newbuf(list(aad)))
    I.check(back is not None and seq_eq(back, pt), "gcm-open-inverts-seal")
    # any other tag is refused
    forged = I.bytes(16, "forged")
    res = g.open(newbuf(list(nonce)), newbuf(list(ct) + list(forged)),
                 newbuf(list(aad)))
    if res is None:
        I.check(NOT(seq_eq(forged, tag)), "gcm-open-refuses-only-wrong-tags")
    else:
        I.check(AND(seq_eq(forged, tag), seq_eq(res, pt)),
                "gcm-open-accepts-only-right-tag")


def ref_ccm_seal(nonce, msg, aad, M):
    L = 15 - len(nonce)
    flags = 64 * (1 if len(aad) else 0) + 8 * ((M - 2) // 2) + (L - 1)
    lm = len(msg)
    b0 = [flags] + list(nonce) + [(lm >> (8 * (L - 1 - j))) & 0xff
                                  for j in range(L)]
    blocks = b0
    if len(aad):
        la = len(aad)
        if la < 2 ** 16 - 2 ** 8:
            enc = [la >> 8, la & 0xff] + list(aad)
        else:
            assert la < 2 ** 32
            enc = [0xff, 0xfe, (la >> 24) & 0xff, (la >> 16) & 0xff,
                   (la >> 8) & 0xff, la & 0xff] + list(aad)
        enc += [0] * ((-len(enc)) % 16)
        blocks = blocks + enc
    m = list(msg) + [0] * ((-len(msg)) % 16)
    blocks = blocks + m
    x = [0] * 16
    for i in range(0, len(blocks), 16):
        x = E(xor(x, blocks[i:i + 16]))
    t = x[:M]

    def a_i(i):
        return [L - 1] + list(nonce) + [(i >> (8 * (L - 1 - j))) & 0xff
                                        for j in range(L)]
    ct = []
    for i in range(0, len(msg), 16):
        ct += xor(list(msg)[i:i + 16], E(a_i(1 + i // 16)))
    u = xor(t, E(a_i(0))[:M])
    return ct, u


def _shapes_ccm(tier):
    out = [dict(n=p, a=a, M=M) for p, a in _aead_lengths(tier)
           for M in (16, 8)]
    # the switch of the AAD length encoding at 2^16 - 2^8 (AAD content
    # concrete there, everything else symbolic)
    for a in (65279, 65280):
        out.append(dict(n=1, a=a, M=16, concrete_aad=True))
    return out


@obligation("C09.8", _shapes_ccm,
            functions=["tlslite.utils.aesccm:AESCCM.seal",
                       "tlslite.utils.aesccm:AESCCM.open",
                       "tlslite.utils.aesccm:AESCCM._cbcmac_calc",
                       "tlslite.utils.aesccm:AESCCM._pad_with_zeroes",
                       "tlslite.utils.python_aes:Python_AES.encrypt",
                       "tlslite.utils.python_aes:Python_AES_CTR.encrypt"],
            assumes=["AES block function = uninterpreted bijection",
                     "reference: RFC 3610 section 2 with L = 3, M = 16 / 8; "
                     "AAD lengths 0..33 symbolic content, and 65279 / 65280 "
                     "(encoding switch) with concrete content"],
            patches=_mode_proxies, timeout=(600, 1200))
def c09_8(I, shape):
    """AES-CCM / CCM-8 seal = RFC 3610; open inverts and refuses other tags"""
    n, a, M = shape["n"], shape["a"], shape["M"]
    nonce = I.bytes(12, "nonce")
    pt = I.bytes(n, "pt")
    if shape.get("concrete_aad"):
        aad = bytearray((7 * i + 1) & 0xff for i in range(a))
    else:
        aad = I.bytes(a, "aad")
    c = ccm_mod.AESCCM(bytearray(16), "python", ModelRijndaelEnc().encrypt, M)
    out = c.seal(newbuf(list(nonce)), newbuf(list(pt)), newbuf(list(aad)))
    ct, u = ref_ccm_seal(nonce, pt, aad, M)
    I.check(AND(len(out) == n + M, seq_eq(out, ct + u)), "ccm-seal")
    back = c.open(newbuf(list(nonce)), newbuf(list(out)), newbuf(list(aad)))
    I.check(back is not None and seq_eq(back, pt), "ccm-open-inverts-seal")
    forged = I.bytes(M, "forged")
    res = c.open(newbuf(list(nonce)), newbuf(list(ct) + list(forged)),
                 newbuf(list(aad)))
    if res is None:
        I.check(NOT(seq_eq(forged, u)), "ccm-open-refuses-only-wrong-tags")
    else:
        I.check(AND(seq_eq(forged, u), seq_eq(res, pt)),
                "ccm-open-accepts-only-right-tag")


def poly_model(self, data):
    """Poly1305.create_tag abstracted (kernel: C09.2)"""
    return apply_uf("POLY", list(self._key) + list(data), 16)


class PolyModel(object):
    def __init__(self, key):
        if len(key) != 32:
            raise ValueError("Key must be 256 bit long")
        self._key = list(key)

    create_tag = poly_model


class ChaChaModel(object):
    """ChaCha(key, nonce, counter).encrypt abstracted to the keystream XOR
    with an uninterpreted keystream function of (key, nonce, block counter)
    (kernel and keystream assembly: C09.1)"""

    def __init__(self, key, nonce, counter=0, rounds=20):
        if len(key) != 32:
            raise ValueError("Key must be 256 bit long")
        if len(nonce) != 12:
            raise ValueError("Nonce must be 96 bit long")
        self.key, self.nonce, self.counter = list(key), list(nonce), counter

    def encrypt(self, data):
        out = []
        data = list(data)
        for i in range(0, len(data), 64):
            c = self.counter + i // 64
            ks = apply_uf("CCKS", self.key + self.nonce +
                          [(c >> 24) & 0xff, (c >> 16) & 0xff, (c >> 8) & 0xff,
                           c & 0xff], 64)
            out += xor(data[i:i + 64], list(ks))
        return newbuf(out)

    decrypt = encrypt


def _cp_patches(shape):
    proxies, stubs = _mode_proxies(shape)
    return proxies, stubs + [(cp_mod, "ChaCha", ChaChaModel),
                             (cp_mod, "Poly1305", PolyModel)]


@obligation("C09.9", _shapes_aead,
            functions=["tlslite.utils.chacha20_poly1305:CHACHA20_POLY1305.seal",
                       "tlslite.utils.chacha20_poly1305:CHACHA20_POLY1305.open",
                       "tlslite.utils.chacha20_poly1305:CHACHA20_POLY1305."
                       "poly1305_key_gen",
                       "tlslite.utils.chacha20_poly1305:CHACHA20_POLY1305.pad16"],
            assumes=["ChaCha20 keystream and Poly1305 = uninterpreted "
                     "functions (kernels: C09.1, C09.2)",
                     "reference: RFC 8439 section 2.8"],
            patches=_cp_patches)
def c09_9(I, shape):
    """ChaCha20-Poly1305 AEAD construction = RFC 8439 2.8"""
    n, a = shape["n"], shape["a"]
    key = I.bytes(32, "key")
    nonce = I.bytes(12, "nonce")
    pt = I.bytes(n, "pt")
    aad = I.bytes(a, "aad")
    c = cp_mod.CHACHA20_POLY1305(newbuf(list(key)), "python")
    out = c.seal(newbuf(list(nonce)), newbuf(list(pt)), newbuf(list(aad)))
    otk = list(ChaChaModel(key, nonce, 0).encrypt([0] * 64))[:32]
    ct = list(ChaChaModel(key, nonce, 1).encrypt(list(pt)))

    def le64(v):
        return [(v >> (8 * j)) & 0xff for j in range(8)]
    mac_data = list(aad) + [0] * ((-a) % 16) + ct + [0] * ((-n) % 16) + \
        le64(a) + le64(n)
    tag = list(apply_uf("POLY", otk + mac_data, 16))
    I.check(AND(len(out) == n + 16, seq_eq(out, ct + tag)), "chachapoly-seal")
    back = c.open(newbuf(list(nonce)), newbuf(list(out)), newbuf(list(aad)))
    I.check(back is not None and seq_eq(back, pt),
            "chachapoly-open-inverts-seal")
    forged = I.bytes(16, "forged")
    res = c.open(newbuf(list(nonce)), newbuf(ct + list(forged)),
                 newbuf(list(aad)))
    if res is None:
        I.check(NOT(seq_eq(forged, tag)),
                "chachapoly-open-refuses-only-wrong-tags")
    else:
        I.check(AND(seq_eq(forged, tag), seq_eq(res, pt)),
                "chachapoly-open-accepts-only-right-tag")


# ---------------------------------------------------------------------------
# C09.5  3DES-EDE CBC construction over an abstract DES
# ---------------------------------------------------------------------------
import tlslite.utils.python_tripledes as tdes_mod

_TOKENS = {}


def _token(symblock):
    """bytes.join needs real bytes: a symbolic 8-byte block travels through
    Python_TripleDES as a unique concrete 8-byte token that the patched
    bytearray() and ModelDes translate back"""
    if is_concrete_mode():
        return bytes(symblock)
    k = len(_TOKENS)
    t = b"\xf5TK" + k.to_bytes(4, 'big') + b"\x5f"
    _TOKENS[t] = list(symblock)
    return t


def _untoken(data):
    if is_concrete_mode() or isinstance(data, SymBytes):
        return list(data)
    data = bytes(data)
    out = []
    for i in range(0, len(data), 8):
        chunk = data[i:i + 8]
        out += _TOKENS.get(chunk, list(chunk))
    return out


def _tdes_bytearray(*a):
    if len(a) == 1 and isinstance(a[0], (bytes, bytearray)):
        return SymBytes(_untoken(a[0]))
    return mk_bytearray(*a)


def des_e(key, block):
    return list(apply_uf("DESE", list(key) + list(block), 8))


def des_d(key, block):
    return list(apply_uf("DESD", list(key) + list(block), 8))


class ModelDes(object):
    """Des(key, iv).crypt contract: CBC-mode single DES under self.iv, with
    the block function an uninterpreted bijection keyed by the key bytes"""
    ENCRYPT = 0x00
    DECRYPT = 0x01

    def __init__(self, key, iv=None):
        if len(key) != 8:
            raise ValueError("Invalid DES key size.")
        self.key = _untoken(key)
        self.iv = iv

    def crypt(self, data, crypt_type):
        iv = _untoken(self.iv)
        data = _untoken(data)
        out = []
        for i in range(0, len(data), 8):
            blk = data[i:i + 8]
            if crypt_type == ModelDes.ENCRYPT:
                x = xor(blk, iv)
                y = des_e(self.key, x)
                if not is_concrete_mode():
                    assume(_fn("DESD", 16, 8)(cat(self.key + y)) == cat(x))
                iv = y
            else:
                x = des_d(self.key, blk)
                if not is_concrete_mode():
                    assume(_fn("DESE", 16, 8)(cat(self.key + x)) == cat(blk))
                y = xor(x, iv)
                iv = blk
            out.append(_token(y))
        return b"".join(out)


def _tdes_patches(shape):
    return ([(tdes_mod, "bytearray", _tdes_bytearray)],
            [(tdes_mod, "Des", ModelDes)])


def _shapes_c09_5(tier):
    out = []
    for klen in (16, 24):
        for n in ((8, 24) if tier == "quick" else (0, 8, 16, 24, 40)):
            out.append(dict(klen=klen, n=n))
    return out


@obligation("C09.5", _shapes_c09_5,
            functions=["tlslite.utils.python_tripledes:Python_TripleDES.__init__",
                       "tlslite.utils.python_tripledes:Python_TripleDES.encrypt",
                       "tlslite.utils.python_tripledes:Python_TripleDES.decrypt",
                       "tlslite.utils.python_tripledes:new"],
            assumes=["single DES (class Des) = CBC wrapper around an "
                     "uninterpreted bijection keyed by its 8 key bytes "
                     "(ModelDes mirrors Des.crypt's contract); the DES "
                     "rounds themselves are outside the claim",
                     "reference: ANSI X9.52 TCBC, keying options 1 (24-byte "
                     "key) and 2 (16-byte key: K3 = K1), IV chained across "
                     "two calls",
                     "symbolic 8-byte blocks cross bytes.join as unique "
                     "concrete tokens"],
            patches=_tdes_patches)
def c09_5(I, shape):
    """3DES-EDE-CBC: c_i = E_k3(D_k2(E_k1(p_i xor c_{i-1}))), state carried"""
    _TOKENS.clear()
    klen, n = shape["klen"], shape["n"]
    key = I.bytes(klen, "key")
    iv = I.bytes(8, "iv")
    p1 = I.bytes(n, "p1")
    p2 = I.bytes(8, "p2")
    k1, k2 = list(key)[:8], list(key)[8:16]
    k3 = k1 if klen == 16 else list(key)[16:24]
    c = tdes_mod.new(newbuf(list(key)), newbuf(list(iv)))
    c1 = c.encrypt(newbuf(list(p1)))
    c2 = c.encrypt(newbuf(list(p2)))
    want = []
    chain = list(iv)
    for blk in [list(p1)[i:i + 8] for i in range(0, n, 8)] + [list(p2)]:
        chain = des_e(k3, des_d(k2, des_e(k1, xor(blk, chain))))
        want += chain
    got = _untoken(c1) + _untoken(c2)
    I.check(AND(len(got) == n + 8, seq_eq(got, want) if len(got) == n + 8
                else False), "tdes-ede-cbc-encrypt")
    d = tdes_mod.new(newbuf(list(key)), newbuf(list(iv)))
    d1 = d.decrypt(newbuf(_untoken(c1)))
    d2 = d.decrypt(newbuf(_untoken(c2)))
    back = _untoken(d1) + _untoken(d2)
    I.check(AND(len(back) == n + 8,
                seq_eq(back, list(p1) + list(p2)) if len(back) == n + 8
                else False), "tdes-ede-cbc-decrypt-inverts")
