"""F7 (C08/C02): an SSLv2-framed record presented to a connection whose read
state is an AEAD cipher makes RecordLayer.recvRecord() raise AttributeError
(AEAD objects have no decrypt()); TLSConnection.read() propagates it: no
alert, no shutdown.  Exit 1 if present."""
import sys
sys.path.insert(0, "/repo")
from tlslite.recordlayer import RecordLayer
from tlslite.constants import CipherSuite


class Sock(object):
    def __init__(self, data):
        self.data = bytearray(data)

    def recv(self, n):
        r = self.data[:n]
        self.data = self.data[n:]
        return r

    def send(self, d):
        return len(d)


rc = 0
for name, suite in (("aes128gcm", CipherSuite.TLS_RSA_WITH_AES_128_GCM_SHA256),
                    ("chacha20", CipherSuite.TLS_ECDHE_RSA_WITH_CHACHA20_POLY1305_SHA256)):
    s = Sock(b"\x80\x03abc")
    r = RecordLayer(s)
    r.version = (3, 3)
    r.client = False
    r.calcPendingStates(suite, bytearray(48), bytearray(32), bytearray(32),
                        ["python"])
    r.changeReadState()
    try:
        for res in r.recvRecord():
            break
        print(name, "accepted?!", res)
        rc = 1
    except Exception as e:
        print(name, "->", type(e).__name__, e)
        if not type(e).__module__.startswith("tlslite"):
            rc = 1
sys.exit(rc)
