"""C08 - malformed peer input fails cleanly, promptly, within bounded memory."""
from lib.framework import obligation
from symx.core import (SymBytes, SymInt, AND, OR, NOT, seq_eq, assume,
                       is_concrete_mode, PathAbort, Unsupported)
from models.fixtures import newbuf
from models.codec_env import codec_proxies, CODEC_ASSUMES
from models import codec_targets as CT
from obl.C15 import (parse_ext, parse_msg, _shapes_ext, _shapes_msg,
                     CODEC_FUNCS, DECODE_ERRORS)

import tlslite.messages as M
import tlslite.extensions as X
from tlslite.utils.codec import Parser


def _shapes_c08_1(tier):
    # SessionTicketPayload is the server's own authenticated data, not peer
    # input: its parser is C15's and C13's subject, not C08's
    return _shapes_ext(tier) + [
        s for s in _shapes_msg(tier)
        if not (CT.RAW.get(s["msg"]) or {}).get("own_data")]


@obligation("C08.1", _shapes_c08_1,
            functions=CODEC_FUNCS + [
                "tlslite.messages:*.parse (every message class)",
                "tlslite.extensions:*.parse (every extension class, every "
                "context)"],
            assumes=CODEC_ASSUMES + [
                "input = arbitrary symbolic bytes of the enumerated length "
                "(extensions: concrete type and length header + symbolic "
                "payload; handshake messages: 3-byte length = n-3)",
                "allowed outcomes: a value, or SyntaxError family "
                "(DecodeError, BadCertificateError) / "
                "TLSIllegalParameterException - exactly what _getMsg maps "
                "to alerts"],
            patches=lambda s: (codec_proxies(), []), max_paths=30000,
            timeout=(300, 1200))
def c08_1(I, shape):
    """parser totality: every path ends in a value or a decode-error type
    that _getMsg turns into an alert; the read index never exceeds the
    buffer"""
    try:
        if "ext" in shape:
            buf, obj, exc, p = parse_ext(I, shape)
        else:
            buf, obj, exc, p = parse_msg(I, shape)
    except (PathAbort, Unsupported):
        raise
    except Exception as e:
        I.fail("parser raised %s (not a decode error)" % type(e).__name__,
               detail=repr(e))
        return
    I.check(AND(p.index >= 0, p.index <= len(buf)), "index-within-buffer")
