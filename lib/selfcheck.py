"""Engine validation (DESIGN 3, 'Validation of the engine' (a)): operator
semantics of SymInt against Python ints, exhaustively for small operands and on
random large operands.  Run: ./check selfcheck"""
import operator
import os
import random
import sys

VERIF = os.path.dirname(os.path.dirname(os.path.abspath(__file__)))
sys.path.insert(0, VERIF)
import z3  # noqa
from symx.core import SymInt, SymBool, Inputs, ite, sym_from_bytes, SymBytes  # noqa


def _val(r, subs):
    if isinstance(r, SymInt):
        v = z3.simplify(z3.substitute(r.e, *subs))
        assert z3.is_bv_value(v), v
        return v.as_signed_long(), (r.lo, r.hi)
    if isinstance(r, SymBool):
        v = z3.simplify(z3.substitute(r.e, *subs))
        return bool(z3.is_true(v)), None
    return r, None


def main():
    fails = 0
    n = 0
    I = Inputs()
    K = 4
    va = z3.BitVec("a", K + 1)
    vb = z3.BitVec("b", K + 1)
    half = 1 << K >> 1
    A = SymInt(z3.ZeroExt(1, va), 0, (1 << (K + 1)) - 1) - (1 << K)
    B = SymInt(z3.ZeroExt(1, vb), 0, (1 << (K + 1)) - 1) - (1 << K)
    binops = [("add", operator.add), ("sub", operator.sub),
              ("mul", operator.mul), ("and", operator.and_),
              ("or", operator.or_), ("xor", operator.xor),
              ("lt", operator.lt), ("le", operator.le), ("gt", operator.gt),
              ("ge", operator.ge), ("eq", operator.eq), ("ne", operator.ne),
              ("floordiv", operator.floordiv), ("mod", operator.mod)]
    rng = range(-(1 << K), 1 << K)
    for name, op in binops:
        for mode in ("ss", "sc", "cs"):
            for y in (rng if mode != "ss" else [None]):
                if mode == "ss":
                    try:
                        # symbolic divisor forks on ==0; skip (needs a Ctx)
                        if name in ("floordiv", "mod"):
                            continue
                        r = op(A, B)
                    except Exception as e:
                        print("op", name, "raised", e)
                        fails += 1
                        continue
                    pairs = [(x, z) for x in rng for z in rng]
                elif mode == "sc":
                    if name in ("floordiv", "mod") and y == 0:
                        continue
                    r = op(A, y)
                    pairs = [(x, y) for x in rng]
                else:
                    if name in ("floordiv", "mod"):
                        continue
                    r = op(y, B)
                    pairs = [(y, z) for z in rng]
                for x, z in pairs:
                    subs = [(va, z3.BitVecVal(x + (1 << K), K + 1)),
                            (vb, z3.BitVecVal(z + (1 << K), K + 1))]
                    got, iv = _val(r, subs)
                    want = op(x, z)
                    n += 1
                    if got != want or (iv and not iv[0] <= want <= iv[1]):
                        fails += 1
                        if fails < 20:
                            print("MISMATCH", name, mode, x, z, got, want, iv)
    # unary / shifts / misc
    for name, f in [("neg", lambda v: -v), ("inv", lambda v: ~v),
                    ("abs", abs), ("shl3", lambda v: v << 3),
                    ("shr1", lambda v: v >> 1), ("shr2", lambda v: v >> 2),
                    ("shr9", lambda v: v >> 9),
                    ("pow3", lambda v: v ** 3),
                    ("mod7", lambda v: v % 7), ("div3", lambda v: v // 3),
                    ("divm3", lambda v: v // -3), ("modm5", lambda v: v % -5),
                    ("mask", lambda v: (v * 37) & 0xff),
                    ("mix", lambda v: ((v + 5) * (v - 3)) ^ (v << 2))]:
        r = f(A)
        for x in rng:
            subs = [(va, z3.BitVecVal(x + (1 << K), K + 1))]
            got, iv = _val(r, subs)
            want = f(x)
            n += 1
            if got != want or (iv and not iv[0] <= want <= iv[1]):
                fails += 1
                if fails < 20:
                    print("MISMATCH", name, x, got, want, iv)
    # random wide operands
    rnd = random.Random(int(os.environ.get("VERIF_SEED", "0") or 0))
    W = 70
    wa = z3.BitVec("wa", W)
    wb = z3.BitVec("wb", W)
    WA = SymInt(z3.ZeroExt(1, wa), 0, (1 << W) - 1)
    WB = SymInt(z3.ZeroExt(1, wb), 0, (1 << W) - 1)
    exprs = [lambda a, b: ((a + b) & 0xffffffff) ^ (b >> 7),
             lambda a, b: (a * b) % ((1 << 61) - 1),
             lambda a, b: (a - b) >> 3,
             lambda a, b: ((a << 13) | (b & 0xfff)) - (a ^ b),
             lambda a, b: (a * 5 + (b >> 2)) // 1000003,
             lambda a, b: pow(a, 5, (1 << 31) - 1) + ~b]
    for f in exprs:
        r = f(WA, WB)
        for _ in range(40):
            x = rnd.getrandbits(W)
            y = rnd.getrandbits(W)
            got, iv = _val(r, [(wa, z3.BitVecVal(x, W)),
                               (wb, z3.BitVecVal(y, W))])
            want = f(x, y)
            n += 1
            if got != want or not iv[0] <= want <= iv[1]:
                fails += 1
                print("MISMATCH wide", got, want, iv)
    # to_bytes / from_bytes
    r = sym_from_bytes((WA & 0xffffff).to_bytes(3, 'big') +
                       (WB & 0xffff).to_bytes(2, 'little'))
    for _ in range(40):
        x = rnd.getrandbits(W)
        y = rnd.getrandbits(W)
        got, iv = _val(r, [(wa, z3.BitVecVal(x, W)), (wb, z3.BitVecVal(y, W))])
        want = int.from_bytes((x & 0xffffff).to_bytes(3, 'big') +
                              (y & 0xffff).to_bytes(2, 'little'), 'big')
        n += 1
        if got != want:
            fails += 1
            print("MISMATCH bytes", got, want)
    print("selfcheck: %d comparisons, %d mismatches" % (n, fails))
    return 1 if fails else 0


if __name__ == "__main__":
    sys.exit(main())
