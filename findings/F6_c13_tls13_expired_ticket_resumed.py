"""F6 (C13): the TLS 1.3 PSK path never compared a ticket's creation time with
settings.ticketLifetime (only the TLS <= 1.2 path did): a client that ignores
the lifetime hint resumed with an expired ticket.  Live handshakes over a
socket pair with ticketLifetime = 1 s and a 2.5 s wait.  Exit 1 if present."""
import socket
import sys
import threading
import time
sys.path.insert(0, "/repo")
from tlslite.api import (TLSConnection, HandshakeSettings, X509,
                         X509CertChain, parsePEMKey)

with open("/repo/tests/serverX509Cert.pem") as f:
    c = X509()
    c.parse(f.read())
chain = X509CertChain([c])
with open("/repo/tests/serverX509Key.pem") as f:
    key = parsePEMKey(f.read(), private=True)
keys = [bytearray(b"k" * 32)]


def run(session):
    a, b = socket.socketpair()
    res = {}

    def srv():
        st = HandshakeSettings()
        st.ticketKeys = keys
        st.ticketLifetime = 1
        conn = TLSConnection(b)
        try:
            conn.handshakeServer(certChain=chain, privateKey=key, settings=st)
            res["server_psk"] = conn.session is not None and \
                getattr(conn, "_selected_psk", None)
            conn.write(b"ok")
            conn.close()
        except Exception as e:
            res["server"] = repr(e)
    t = threading.Thread(target=srv)
    t.start()
    conn = TLSConnection(a)
    conn.handshakeClientCert(session=session)
    conn.read(min=2, max=2)
    out = (conn.resumed, conn.session)
    conn.close()
    t.join(10)
    a.close()
    b.close()
    return out


resumed, sess = run(None)
# the peer is free to ignore the lifetime hint: keep offering the ticket
for t in sess.tickets:
    t.ticket_lifetime = 3600
time.sleep(2.5)
resumed2, _ = run(sess)
print("resumed with a ticket older than ticketLifetime:", resumed2)
sys.exit(1 if resumed2 else 0)
