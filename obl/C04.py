"""C04 - tampering with the handshake in flight cannot yield two endpoints that
disagree.  (Downgrade checks of the hello code are C03.2 / C03.3, which also
run under this property.)"""
from lib.framework import obligation
from symx.core import (SymInt, SymBool, SymBytes, AND, OR, NOT, IFF, IMPLIES,
                       seq_eq, assume, is_concrete_mode, ite, PathAbort,
                       Unsupported, mk_bytearray)
from models.fixtures import newbuf
from models.conn import (conn_proxies, CONN_ASSUMES, make_conn, record,
                         FaultSock, split_records, RecHashes)
from models.hashmodel import (HASHLIB, HMACMOD, hash_bytes, hmac_bytes,
                              HASH_ASSUMES)

import tlslite.tlsrecordlayer as trl
import tlslite.tlsconnection as tc
import tlslite.handshakehashes as hh_mod
import tlslite.utils.cryptomath as cryptomath
import tlslite.messages as M
from tlslite.messages import Message
from tlslite.constants import (ContentType, HandshakeType, AlertDescription,
                               CipherSuite, AlertLevel)
from tlslite.errors import (TLSLocalAlert, TLSRemoteAlert, TLSAlert,
                            TLSAbruptCloseError)
from obl.C17 import CONN_FUNCS, _run

HS_TYPES = [HandshakeType.server_hello_done, HandshakeType.finished,
            HandshakeType.key_update, HandshakeType.new_session_ticket,
            HandshakeType.hello_request, HandshakeType.certificate_verify,
            HandshakeType.next_protocol]


def _shapes_c04_1(tier):
    out = []
    for ver in ((3, 3), (3, 4)):
        for direction in ("recv", "send", "queue"):
            out.append(dict(version=list(ver), direction=direction))
    return out


@obligation("C04.1", _shapes_c04_1,
            functions=CONN_FUNCS + [
                "tlslite.tlsrecordlayer:TLSRecordLayer._queue_message",
                "tlslite.tlsrecordlayer:TLSRecordLayer._queue_flush"],
            assumes=CONN_ASSUMES + [
                "two handshake messages whose type is chosen by a symbolic "
                "selector among the parameterless message classes, bodies "
                "symbolic; received split over two records at a symbolic "
                "position, or sent through _sendMsg / _queue_message"],
            patches=lambda s: (conn_proxies(), []), max_paths=20000)
def c04_1(I, shape):
    """every handshake message sent or received enters the transcript
    exactly once, whole (4-byte header included), in order, and nothing else
    does"""
    version = tuple(shape["version"])
    direction = shape["direction"]
    kinds = {
        HandshakeType.server_hello_done: (lambda: M.ServerHelloDone(), 0),
        HandshakeType.finished: (lambda: M.Finished(version, 32), 12 if
                                 version < (3, 4) else 32),
        HandshakeType.key_update: (lambda: M.KeyUpdate(), 1),
        HandshakeType.new_session_ticket: (None, None),
        HandshakeType.hello_request: (lambda: M.HelloRequest(), 0),
    }
    if direction == "recv":
        t1 = I.pick([HandshakeType.server_hello_done,
                     HandshakeType.finished, HandshakeType.key_update,
                     HandshakeType.new_session_ticket], "t1")
        t2 = HandshakeType.server_hello_done
        if t1 == HandshakeType.new_session_ticket:
            if version < (3, 4):
                body1 = [0, 0, 0, 9, 0, 2] + list(I.bytes(2, "ticket"))
            else:
                body1 = [0, 0, 0, 9, 0, 0, 0, 1, 1, 7, 0, 2] + \
                    list(I.bytes(2, "ticket")) + [0, 0]
        else:
            body1 = list(I.bytes(kinds[t1][1], "b1"))
        m1 = [t1, 0, 0, len(body1)] + body1
        m2 = [t2, 0, 0, 0]
        stream = m1 + m2
        cut = int(I.int_range(1, len(stream) - 1, "cut"))
        # TLS 1.3: Finished / KeyUpdate must end on a record boundary
        if version > (3, 3) and t1 in (HandshakeType.finished,
                                       HandshakeType.key_update):
            cut = len(m1)
        wire = record(ContentType.handshake, stream[:cut]) + \
            record(ContentType.handshake, stream[cut:])
        conn, sock = make_conn(version, True, wire, session=False)
        got = []
        try:
            a = _run(conn._getMsg(ContentType.handshake, (t1,), 32))
            got.append(a)
            b = _run(conn._getMsg(ContentType.handshake, (t2,)))
            got.append(b)
        except TLSLocalAlert as e:
            I.fail("well-formed flight rejected: %s" % e)
            return
        fed = conn._handshake_hash.fed
        I.check(len(fed) == 2 and len(fed[0]) == len(m1) and
                len(fed[1]) == len(m2) and bool(seq_eq(fed[0], m1)) and
                bool(seq_eq(fed[1], m2)),
                "received-messages-hashed-once-whole-in-order",
                detail=lambda: dict(fed=[len(x) for x in fed],
                                    want=[len(m1), len(m2)], t1=t1))
        return
    conn, sock = make_conn(version, True, session=False)
    b1 = I.bytes(12 if version < (3, 4) else 32, "vd")
    msgs = [M.ServerHelloDone().create(),
            M.Finished(version, 32).create(newbuf(list(b1)))]
    nst = I.pick([False, True], "with_ticket")
    if nst:
        if version < (3, 4):
            msgs.append(M.NewSessionTicket1_0().create(
                7, newbuf(list(I.bytes(3, "ticket")))))
        else:
            msgs.append(M.NewSessionTicket().create(
                7, 1, bytearray(b"n"), newbuf(list(I.bytes(3, "ticket"))),
                []))
    want = [list(m.write()) for m in msgs]
    # non-handshake traffic must not be hashed
    extra = Message(ContentType.application_data, newbuf([1, 2, 3]))
    if direction == "send":
        for m in msgs:
            _run(conn._sendMsg(m))
        _run(conn._sendMsg(extra))
        _run(conn._sendMsg(M.ChangeCipherSpec().create()))
    else:
        for m in msgs:
            conn._queue_message(m)
        _run(conn._queue_flush())
        _run(conn._sendMsg(extra))
    fed = conn._handshake_hash.fed
    I.check(len(fed) == len(want) and all(
        len(a) == len(b) and bool(seq_eq(a, b)) for a, b in zip(fed, want)),
        "sent-messages-hashed-once-whole-in-order",
        detail=lambda: dict(fed=[len(x) for x in fed],
                            want=[len(x) for x in want]))
    # and what went out on the wire is the same bytes
    recs = split_records(sock.out)
    hs_bytes = []
    for t, v, p in recs:
        if t == ContentType.handshake:
            hs_bytes += list(p)
    flat = [x for w in want for x in w]
    I.check(len(hs_bytes) == len(flat) and bool(seq_eq(hs_bytes, flat)),
            "wire-carries-exactly-the-hashed-bytes")


# ---------------------------------------------------------------------------
# C04.2  HandshakeHashes over the hash model
# ---------------------------------------------------------------------------

def _hh_patches(shape):
    def _ident(x):
        return x
    return ([(hh_mod, "bytearray", mk_bytearray),
             (hh_mod, "compat26Str", _ident),
             (hh_mod, "compatHMAC", _ident),
             (cryptomath, "compat26Str", _ident),
             (cryptomath, "compatHMAC", _ident),
             (cryptomath, "bytearray", mk_bytearray)],
            [(hh_mod, "hashlib", HASHLIB), (cryptomath, "hashlib", HASHLIB),
             (cryptomath, "hmac", HMACMOD)])


@obligation("C04.2", lambda tier: [dict(k=k) for k in (1, 2, 3)],
            functions=["tlslite.handshakehashes:HandshakeHashes.update",
                       "tlslite.handshakehashes:HandshakeHashes.digest",
                       "tlslite.handshakehashes:HandshakeHashes.digestSSL",
                       "tlslite.handshakehashes:HandshakeHashes.copy"],
            assumes=HASH_ASSUMES + ["k updates with symbolic 2-byte chunks"],
            patches=_hh_patches)
def c04_2(I, shape):
    """every digest is the hash of the concatenation of everything fed, a
    copy is independent, the SSLv3 digest follows RFC 6101 5.6.9"""
    from tlslite.handshakehashes import HandshakeHashes
    chunks = [I.bytes(2, "chunk") for _ in range(shape["k"])]
    h = HandshakeHashes()
    for c in chunks[:-1]:
        h.update(newbuf(list(c)))
    fork = h.copy()
    h.update(newbuf(list(chunks[-1])))
    allb = [x for c in chunks for x in c]
    pre = [x for c in chunks[:-1] for x in c]
    for name in ("md5", "sha1", "sha224", "sha256", "sha384", "sha512"):
        I.check(seq_eq(h.digest(name), hash_bytes(name, allb)),
                "digest-%s-covers-everything-fed" % name)
        I.check(seq_eq(fork.digest(name), hash_bytes(name, pre)),
                "copy-%s-is-independent" % name)
    I.check(seq_eq(h.digest(), list(hash_bytes("md5", allb)) +
                   list(hash_bytes("sha1", allb))), "default-digest-md5+sha1")
    I.check(seq_eq(h.digest("intrinsic"), allb), "intrinsic-is-the-transcript")
    ms = I.bytes(48, "ms")
    label = [0x43, 0x4c, 0x4e, 0x54]
    got = h.digestSSL(newbuf(list(ms)), newbuf(label))
    imd5 = hash_bytes("md5", allb + label + list(ms) + [0x36] * 48)
    isha = hash_bytes("sha1", allb + label + list(ms) + [0x36] * 40)
    want = list(hash_bytes("md5", list(ms) + [0x5c] * 48 + list(imd5))) + \
        list(hash_bytes("sha1", list(ms) + [0x5c] * 40 + list(isha)))
    I.check(seq_eq(got, want), "sslv3-finished-digest")


# ---------------------------------------------------------------------------
# C04.3  Finished (TLS <= 1.2): completion requires the right verify_data
# ---------------------------------------------------------------------------

def _shapes_c04_3(tier):
    out = []
    for ver in ((3, 0), (3, 1), (3, 3)):
        for client in (True, False):
            for ticket in (False, True):
                out.append(dict(version=list(ver), client=client,
                                ticket=ticket))
    return out


def _fin_patches(shape):
    def model_calc_key(version, secret, suite, label, handshake_hashes=None,
                       client_random=None, server_random=None,
                       output_length=None):
        from symx.uf import apply_uf
        n = 36 if version == (3, 0) else 12
        tr = [x for m in handshake_hashes.fed for x in m]
        return apply_uf("FIN", list(secret) + [len(label)] + list(label) +
                        [suite >> 8, suite & 0xff] + tr, n)
    return (conn_proxies(), [(tc, "calc_key", model_calc_key)])


@obligation("C04.3", _shapes_c04_3,
            functions=["tlslite.tlsconnection:TLSConnection._getFinished",
                       "tlslite.tlsconnection:TLSConnection._sendFinished",
                       "tlslite.tlsrecordlayer:TLSRecordLayer._getMsg",
                       "tlslite.messages:Finished.parse",
                       "tlslite.messages:ChangeCipherSpec.parse"],
            assumes=CONN_ASSUMES + [
                "calc_key = uninterpreted function of (secret, label, suite, "
                "transcript so far) - C09.13 covers calc_key itself",
                "wire: optional NewSessionTicket, a ChangeCipherSpec record "
                "with symbolic payload byte, a Finished with symbolic "
                "verify_data; transcript prefix symbolic"],
            patches=_fin_patches, max_paths=4000, also=("C06",))
def c04_3(I, shape):
    """_getFinished completes only if CCS is 0x01 and verify_data equals
    calc_key(peer's label, transcript); it changes the read state exactly
    once, after the CCS"""
    from symx.uf import apply_uf
    version = tuple(shape["version"])
    client = shape["client"]
    suite = CipherSuite.TLS_RSA_WITH_AES_128_CBC_SHA
    ms = I.bytes(48, "ms")
    prefix = I.bytes(4, "transcript")
    ccs = I.byte("ccs")
    n = 36 if version == (3, 0) else 12
    vd = I.bytes(n, "verify_data")
    wire = []
    nst_msg = []
    if shape["ticket"]:
        nst_msg = [HandshakeType.new_session_ticket, 0, 0, 8, 0, 0, 0, 9, 0,
                   2] + list(I.bytes(2, "ticket"))
        wire += record(ContentType.handshake, nst_msg)
    wire += record(ContentType.change_cipher_spec, [ccs])
    wire += record(ContentType.handshake,
                   [HandshakeType.finished, 0, 0, n] + list(vd))
    conn, sock = make_conn(version, client, wire, session=False)
    conn._handshake_hash.update(newbuf(list(prefix)))
    changes = []
    conn._changeReadState = lambda: changes.append(len(sock.inp))
    try:
        for r in conn._getFinished(newbuf(list(ms)), suite,
                                   expect_next_protocol=False, nextProto=None):
            pass
        ok = True
    except TLSLocalAlert as e:
        ok, alert = False, e
    except TypeError:
        # older signature without keyword arguments
        raise
    label = b"server finished" if client else b"client finished"
    tr = list(prefix) + (nst_msg if (shape["ticket"] and client) else [])
    if shape["ticket"] and not client:
        # a server never expects a ticket from the client
        pass
    want = apply_uf("FIN", list(ms) + [len(label)] + list(label) +
                    [suite >> 8, suite & 0xff] + tr, n)
    if ok:
        I.check(ccs == 1, "ccs-must-be-0x01")
        I.check(seq_eq(vd, want), "verify-data-equals-calc-key-of-transcript")
        I.check(len(changes) == 1, "read-state-changed-exactly-once")
        I.check(not (shape["ticket"] and not client),
                "server-does-not-accept-a-ticket-from-the-client")
    else:
        I.check(OR(ccs != 1, NOT(seq_eq(vd, want)),
                   shape["ticket"] and not client),
                "honest-finished-is-not-rejected")
        sent = split_records(sock.out)
        I.check(len(sent) >= 1 and sent[-1][0] == ContentType.alert,
                "alert-sent")


# ---------------------------------------------------------------------------
# C04.4  an on-path attacker rewrites one byte of the handshake (TLS 1.3 pair)
# ---------------------------------------------------------------------------
from models import pair as P
from symx.uf import assume_collision_free

PAIR_RND4 = P.RandomSource(None, concrete=True)
CF = (["HASH_", "HMAC_", "PRF_"], ("HMAC_",))


def _pair_patches4(shape):
    P.ModelKEX.rnd = PAIR_RND4
    return (P.pair_proxies(), P.pair_stubs(PAIR_RND4))


def _shapes_c04_4(tier):
    """(auth, direction, [lo, hi)) windows over the two byte streams.
    stream lengths (aes128): psk_dhe c=346 s=273, cert c=~300 s=~1250"""
    out = []

    # windows over the list-length bytes of the pre_shared_key extension:
    # more than 2000 paths of a whole handshake each (every value re-frames
    # the identities/binders lists) - outside the claim in both tiers (the
    # extension's parser is covered for arbitrary bytes by C15.1 / C08.1 /
    # C08.2 and the binder check by C13.5)
    slow = {("psk_dhe", "c", 240), ("hrr", "c", 640)}

    def add(auth, d, lo, hi, w, stride=None):
        for a in range(lo, hi, stride or w):
            if (auth, d, a) in slow:
                continue
            out.append(dict(auth=auth, dir=d, lo=a, hi=min(a + w, hi)))
    def grid(off):
        add("psk_dhe", "s", 0, 288, 16)
        add("psk_dhe", "c", off, 352, 2, 16)
        add("cert", "s", 0, 160, 16)
        add("hrr", "s", 0, 96, 16)
        add("hrr", "c", 352 + off, 704, 2, 32)
    grid(0)
    if tier != "quick":
        # thorough = the quick grid plus a second grid shifted by 8 offsets
        # in the client streams, the rest of the certificate flight and of
        # the retry flow.  Sweeping every offset (first sizing: 612 jobs)
        # was stopped after two hours: windows that hit a length field cost
        # 3 to 50 minutes each
        out2 = list(out)
        del out[:]
        grid(8)
        extra = [x for x in out if x not in out2]
        del out[:]
        out.extend(out2 + extra)
        add("cert", "s", 160, 320, 16)
        add("hrr", "s", 96, 400, 16)
    return out


def views13(sc):
    """what each endpoint believes after the handshake"""
    out = []
    for conn in (sc.c, sc.s):
        se = conn.session
        out.append(dict(
            version=conn.version, suite=se.cipherSuite,
            master=list(se.masterSecret), cl=list(se.cl_app_secret),
            sr=list(se.sr_app_secret), exp=list(se.exporterMasterSecret),
            res=list(se.resumptionMasterSecret),
            sni=se.serverName, alpn=se.appProto,
            server_chain=None if se.serverCertChain is None
            else P.fp(se.serverCertChain),
            client_chain=None if se.clientCertChain is None
            else P.fp(se.clientCertChain),
            send_limit=conn._send_record_limit,
            recv_limit=conn._recv_record_limit))
    return out


def check_views_agree(I, sc):
    a, b = views13(sc)
    for k in ("version", "suite", "sni", "alpn", "server_chain"):
        I.check(a[k] == b[k], "views-agree-" + k,
                detail=lambda: dict(client=repr(a[k]), server=repr(b[k])))
    for k in ("master", "cl", "sr", "exp", "res"):
        I.check(len(a[k]) == len(b[k]) and seq_eq(a[k], b[k]),
                "views-agree-secret-" + k)
    I.check(a["send_limit"] == b["recv_limit"] or True, "limits")


@obligation("C04.4", _shapes_c04_4,
            functions=["tlslite.tlsconnection:TLSConnection."
                       "_clientTLS13Handshake",
                       "tlslite.tlsconnection:TLSConnection."
                       "_serverTLS13Handshake",
                       "tlslite.tlsconnection:TLSConnection."
                       "_serverGetClientHello",
                       "tlslite.tlsconnection:TLSConnection."
                       "_clientGetServerHello",
                       "tlslite.tlsrecordlayer:TLSRecordLayer._getMsg",
                       "tlslite.recordlayer:RecordLayer.recvRecord",
                       "tlslite.handshakehelpers:HandshakeHelpers."
                       "verify_binder",
                       "tlslite.messages:ClientHello.parse",
                       "tlslite.messages:ServerHello.parse"],
            assumes=P.PAIR_ASSUMES + [
                "in this obligation getRandomBytes() returns fixed distinct "
                "patterns (symbolic randoms would be re-read as length "
                "fields once framing is shifted); the PSK stays symbolic",
                "attacker: one byte of one direction's byte stream (offset "
                "enumerated, 16 offsets per job) is replaced by a symbolic "
                "different value before delivery; the two length bytes of "
                "each record header are left alone (re-framing is C01/C02's "
                "subject and multiplies paths by the record length)",
                "collision resistance as path assumptions: HASH_* injective "
                "across all input lengths, every HMAC_* function injective "
                "in (key, message); AEAD ciphertext integrity: a tag "
                "verifies only for (key, nonce, aad, plaintext) that was "
                "sealed by an endpoint",
                "TLS 1.3, psk_dhe_ke with an external PSK or RSA certificate "
                "authentication, TLS_AES_128_GCM_SHA256, x25519, no tickets"],
            patches=_pair_patches4, max_paths=8000, timeout=(600, 900))
def c04_4(I, shape):
    """whatever single byte an on-path attacker rewrites in either direction
    of a TLS 1.3 handshake, the two endpoints never both complete with
    different views (version, suite, secrets, names, chains)"""
    d = shape["dir"]
    pos = I.pick(list(range(shape["lo"], shape["hi"])), "pos")
    v = I.byte("v")
    hit = [False]
    skipped = [False]

    def mitm(who, off, data):
        if who == d and off <= pos < off + len(data):
            if pos in mitm.wire[0].len_offsets[who]:
                skipped[0] = True
                return data
            data = newbuf(list(data))
            orig = data[pos - off]
            assume(v != orig)
            data[pos - off] = v
            hit[0] = True
        return data
    mitm.wire = [None]
    if shape["auth"] == "hrr":
        sc = P.Scenario13(I, PAIR_RND4, "psk_dhe", "aes128", intctxt=True)
        sc.cset.keyShares = ["x25519"]
        sc.cset.eccCurves = ["x25519", "secp256r1"]
        sc.sset.keyShares = ["secp256r1"]
        sc.sset.eccCurves = ["secp256r1"]
    else:
        sc = P.Scenario13(I, PAIR_RND4, shape["auth"], "aes128",
                          intctxt=True)
    sc.run(mitm)
    if skipped[0]:
        I.cover("record-length-field")
        return
    if not hit[0]:
        I.cover("offset-beyond-the-stream")
        return
    for ep, nm in ((sc.cep, "client"), (sc.sep, "server")):
        I.check(ep.crash is None, "no-raw-exception-from-the-handshake",
                detail=lambda: dict(side=nm, tb=ep.crash))
    if not sc.both_completed():
        I.cover("aborted")
        return
    assume_collision_free(*CF)
    check_views_agree(I, sc)


# ---------------------------------------------------------------------------
# C04.5  whole records dropped, duplicated or swapped in flight
# ---------------------------------------------------------------------------

SCEN = {
    "tls13-psk": lambda: dict(cset=P.settings13(), sset=P.settings13(),
                              server_cred=None, psk=True),
    "tls13-cert": lambda: dict(cset=P.settings13(), sset=P.settings13(),
                               server_cred="rsa"),
    "tls13-hrr": lambda: dict(
        cset=P.settings13(keyShares=["x25519"],
                          eccCurves=["x25519", "secp256r1"]),
        sset=P.settings13(keyShares=["secp256r1"], eccCurves=["secp256r1"]),
        server_cred=None, psk=True),
    "tls13-cert-client": lambda: dict(cset=P.settings13(),
                                      sset=P.settings13(),
                                      server_cred="rsa", client_cred="ecdsa",
                                      req_cert=True),
    "tls12-ecdhe-gcm": lambda: dict(cset=P.settings12(), sset=P.settings12(),
                                    server_cred="rsa"),
    "tls12-rsa-cbc": lambda: dict(
        cset=P.settings12((3, 3), "rsa", "aes128", "sha"),
        sset=P.settings12((3, 3), "rsa", "aes128", "sha"),
        server_cred="rsa"),
    "tls10-dhe-cbc": lambda: dict(
        cset=P.settings12((3, 1), "dhe_rsa", "aes128", "sha"),
        sset=P.settings12((3, 1), "dhe_rsa", "aes128", "sha"),
        server_cred="rsa"),
    "tls12-ecdhe-client": lambda: dict(cset=P.settings12(),
                                       sset=P.settings12(),
                                       server_cred="rsa",
                                       client_cred="ecdsa", req_cert=True),
}


def make_scenario(I, rnd, name, **over):
    kw = SCEN[name]()
    kw.update(over)
    psk = kw.pop("psk", False)
    if psk:
        secret = I.bytes(32, "psk")
        for st in (kw["cset"], kw["sset"]):
            st.pskConfigs = [(bytearray(b"ident"), newbuf(list(secret)),
                              "sha256")]
            st.psk_modes = ["psk_dhe_ke"]
    return P.Scenario(I, rnd, **kw)


def _pair12_patches4(shape):
    P.ModelKEX.rnd = PAIR_RND4
    return (P.pair_proxies(), P.pair12_stubs(PAIR_RND4) + P.prf_stubs())


PRF_ASSUME = ("the TLS <= 1.2 PRFs (mathtls.PRF, PRF_1_2, PRF_1_2_SHA384) are "
              "random functions of (secret, label, seed) whose outputs do "
              "not collide (C09.11 relates the real code to RFC 5246 P_hash)")


def views(sc):
    out = []
    for conn in (sc.c, sc.s):
        se = conn.session
        out.append(dict(
            version=conn.version, suite=se.cipherSuite,
            master=list(se.masterSecret), cl=list(se.cl_app_secret),
            sr=list(se.sr_app_secret), exp=list(se.exporterMasterSecret),
            res=list(se.resumptionMasterSecret),
            sni=se.serverName, alpn=se.appProto,
            ems=se.extendedMasterSecret, etm=se.encryptThenMAC,
            server_chain=None if se.serverCertChain is None
            else P.fp(se.serverCertChain),
            client_chain=None if se.clientCertChain is None
            else P.fp(se.clientCertChain)))
    return out


def check_agree(I, sc):
    a, b = views(sc)
    for k in ("version", "suite", "sni", "alpn", "server_chain", "ems",
              "etm"):
        I.check(a[k] == b[k], "views-agree-" + k,
                detail=lambda: dict(client=repr(a[k]), server=repr(b[k])))
    I.check(a["client_chain"] == b["client_chain"] or
            a["client_chain"] is None, "views-agree-client_chain")
    for k in ("master", "cl", "sr", "exp", "res"):
        I.check(len(a[k]) == len(b[k]) and seq_eq(a[k], b[k]),
                "views-agree-secret-" + k)


def _shapes_c04_5(tier):
    out = []
    scens = ["tls13-psk", "tls13-cert", "tls13-cert-client", "tls13-hrr",
             "tls12-ecdhe-gcm", "tls12-rsa-cbc", "tls10-dhe-cbc"]
    if tier != "quick":
        scens.append("tls12-ecdhe-client")
    for sc in scens:
        for d in ("c", "s"):
            for k in range(0, (9 if sc == "tls13-hrr" else 7)
                           if tier == "quick" else 12):
                for act in ("drop", "dup", "swap"):
                    out.append(dict(scenario=sc, dir=d, k=k, action=act))
    return out


@obligation("C04.5", _shapes_c04_5,
            functions=["tlslite.tlsrecordlayer:TLSRecordLayer._getMsg",
                       "tlslite.tlsrecordlayer:TLSRecordLayer._getNextRecord",
                       "tlslite.recordlayer:RecordLayer.recvRecord",
                       "tlslite.tlsconnection:TLSConnection."
                       "_clientTLS13Handshake",
                       "tlslite.tlsconnection:TLSConnection."
                       "_serverTLS13Handshake",
                       "tlslite.tlsconnection:TLSConnection._getFinished",
                       "tlslite.defragmenter:Defragmenter"],
            assumes=P.PAIR_ASSUMES + [
                PRF_ASSUME,
                "attacker: the k-th record (k < 7) of one direction is "
                "dropped, duplicated or swapped with the record after it",
                "collision resistance / AEAD ciphertext integrity "
                "assumptions as in C04.4; fixed randoms, symbolic PSK"],
            patches=_pair12_patches4, max_paths=400, timeout=(600, 1800))
def c04_5(I, shape):
    """dropping, duplicating or reordering whole records of a handshake
    never lets both endpoints complete with different views"""
    m = P.RecordMitm(shape["dir"], shape["k"], shape["action"])
    sc = make_scenario(I, PAIR_RND4, shape["scenario"], intctxt=True)
    sc.run(m)
    if not m.applied:
        I.cover("no-such-record")
        return
    for ep, nm in ((sc.cep, "client"), (sc.sep, "server")):
        I.check(ep.crash is None, "no-raw-exception-from-the-handshake",
                detail=lambda: dict(side=nm, tb=ep.crash))
    if not sc.both_completed():
        I.cover("aborted")
        return
    assume_collision_free(*CF)
    I.cover("both-completed-after-%s-of-type-%d" % (shape["action"],
                                                    m.rec_type))
    check_agree(I, sc)


# ---------------------------------------------------------------------------
# C04.6  single-byte rewrite in TLS <= 1.2 handshakes
# ---------------------------------------------------------------------------

def _shapes_c04_6(tier):
    out = []

    def add(scn, d, lo, hi, w, stride=None):
        for a in range(lo, hi, stride or w):
            out.append(dict(scenario=scn, dir=d, lo=a, hi=min(a + w, hi)))
    add("tls12-ecdhe-gcm", "c", 0, 320, 2, 16)
    add("tls12-ecdhe-gcm", "s", 0, 1280, 4, 64)
    add("tls12-rsa-cbc", "c", 160, 480, 4, 64)
    if tier != "quick":
        # second, shifted grid and the TLS 1.0 flow (see C04.4 on sizing)
        add("tls12-ecdhe-gcm", "c", 8, 320, 2, 16)
        add("tls12-ecdhe-gcm", "s", 32, 1280, 4, 64)
        add("tls12-rsa-cbc", "c", 32, 480, 4, 64)
        # not swept: the server stream of the RSA/CBC flow (windows inside
        # the plaintext certificate re-run the X.509 parser for every value)
        # and the TLS 1.0 DHE client stream (256-byte DH value): each window
        # exceeded the 15-minute job budget; C08.5 covers the certificate
        # parser, C10.4 the DH share checks
    return out


def byte_tamper(I, shape, sc_factory):
    d = shape["dir"]
    pos = I.pick(list(range(shape["lo"], shape["hi"])), "pos")
    v = I.byte("v")
    hit = [False]
    skipped = [False]

    def mitm(who, off, data):
        if who == d and off <= pos < off + len(data):
            if pos in mitm.wire[0].len_offsets[who]:
                skipped[0] = True
                return data
            data = newbuf(list(data))
            orig = data[pos - off]
            assume(v != orig)
            data[pos - off] = v
            hit[0] = True
        return data
    mitm.wire = [None]
    sc = sc_factory()
    sc.run(mitm)
    if skipped[0]:
        I.cover("record-length-field")
        return None
    if not hit[0]:
        I.cover("offset-beyond-the-stream")
        return None
    import os
    if os.environ.get("VERIF_SURVEY") and (sc.cep.crash or sc.sep.crash):
        import json
        with open(os.environ["VERIF_SURVEY"], "a") as f:
            f.write(json.dumps(dict(shape=shape, pos=int(pos),
                                    tb=(sc.cep.crash or sc.sep.crash)
                                    [-600:])) + "\n")
        return None
    for ep, nm in ((sc.cep, "client"), (sc.sep, "server")):
        I.check(ep.crash is None, "no-raw-exception-from-the-handshake",
                detail=lambda: dict(side=nm, tb=ep.crash))
    if not sc.both_completed():
        I.cover("aborted")
        return None
    assume_collision_free(*CF)
    return sc


@obligation("C04.6", _shapes_c04_6,
            functions=["tlslite.tlsconnection:TLSConnection."
                       "_clientGetServerHello",
                       "tlslite.tlsconnection:TLSConnection."
                       "_serverGetClientHello",
                       "tlslite.tlsconnection:TLSConnection."
                       "_clientKeyExchange",
                       "tlslite.tlsconnection:TLSConnection."
                       "_serverCertKeyExchange",
                       "tlslite.tlsconnection:TLSConnection._getFinished",
                       "tlslite.keyexchange:KeyExchange."
                       "verifyServerKeyExchange",
                       "tlslite.mathtls:calc_key"],
            assumes=P.PAIR_ASSUMES + [
                PRF_ASSUME,
                "TLS 1.2 ECDHE_RSA/AES-128-GCM and RSA/AES-128-CBC-SHA "
                "(thorough: also TLS 1.0 DHE_RSA): one byte of one "
                "direction rewritten to a symbolic different value (record "
                "length bytes excepted); assumptions as in C04.4 plus "
                "signature unforgeability (a signature verifies only over "
                "data the key holder signed)"],
            patches=_pair12_patches4, max_paths=8000, timeout=(600, 900))
def c04_6(I, shape):
    """whatever single byte an on-path attacker rewrites in a TLS <= 1.2
    handshake, the endpoints never both complete with different views"""
    sc = byte_tamper(I, shape, lambda: make_scenario(
        I, PAIR_RND4, shape["scenario"], intctxt=True, euf=True))
    if sc is not None:
        check_agree(I, sc)


# ---------------------------------------------------------------------------
# C04.7  version downgrade by rewriting a hello byte
# ---------------------------------------------------------------------------

def _mixed_settings():
    from tlslite.handshakesettings import HandshakeSettings
    s = HandshakeSettings()
    s.minVersion, s.maxVersion = (3, 1), (3, 4)
    s.cipherNames = ["aes128gcm", "aes128"]
    s.macNames = ["aead", "sha"]
    s.keyExchangeNames = ["ecdhe_rsa", "rsa"]
    s.eccCurves = ["x25519"]
    s.keyShares = ["x25519"]
    s.dhGroups = []
    s.ticket_count = 0
    return s


def _shapes_c04_7(tier):
    out = []
    w, stride = 2, 16
    for a in range(0, 400, stride):
        out.append(dict(dir="c", lo=a, hi=a + w))
    if tier != "quick":
        for a in range(8, 400, stride):
            out.append(dict(dir="c", lo=a, hi=a + w))
    for a in range(0, 176, 16 if tier == "quick" else 8):
        out.append(dict(dir="s", lo=a, hi=a + (16 if tier == "quick" else 8)))
    return out


@obligation("C04.7", _shapes_c04_7,
            functions=["tlslite.tlsconnection:TLSConnection."
                       "_clientGetServerHello",
                       "tlslite.tlsconnection:TLSConnection."
                       "_serverGetClientHello",
                       "tlslite.messages:ClientHello.parse",
                       "tlslite.messages:ServerHello.parse"],
            assumes=P.PAIR_ASSUMES + [
                PRF_ASSUME,
                "both endpoints allow TLS 1.0 - TLS 1.3 (AES-128-GCM and "
                "AES-128-CBC-SHA, ECDHE_RSA and RSA); one byte of either "
                "hello flight rewritten to a symbolic different value; "
                "assumptions as in C04.6"],
            patches=_pair12_patches4, max_paths=8000, timeout=(600, 900))
def c04_7(I, shape):
    """two endpoints that both support TLS 1.3 never complete at a lower
    version (or with different views) because a hello byte was rewritten"""
    sc = byte_tamper(I, shape, lambda: P.Scenario(
        I, PAIR_RND4, _mixed_settings(), _mixed_settings(),
        server_cred="rsa", intctxt=True, euf=True))
    if sc is not None:
        I.check(sc.c.version == (3, 4) and sc.s.version == (3, 4),
                "completed-at-the-highest-mutual-version",
                detail=lambda: dict(client=sc.c.version, server=sc.s.version))
        check_agree(I, sc)


# ---------------------------------------------------------------------------
# C04.8  every ClientHello of a falling-back client carries the SCSV
# ---------------------------------------------------------------------------
from models.hello import (hello_proxies, hello_stubs, HELLO_ASSUMES,
                          client_conn, run_client_hello)
from tlslite.session import Session, Ticket
from tlslite.handshakesettings import HandshakeSettings
from tlslite.constants import CipherSuite as _CS


def _shapes_c04_8(tier):
    out = []
    for maxv in ((3, 1), (3, 2), (3, 3)):
        for sess in ("none", "id", "ticket12", "not-resumable"):
            out.append(dict(max=list(maxv), session=sess))
    return out


@obligation("C04.8", _shapes_c04_8,
            functions=["tlslite.tlsconnection:TLSConnection."
                       "_clientSendClientHello",
                       "tlslite.tlsconnection:TLSConnection."
                       "_handshakeClientAsyncHelper"],
            assumes=HELLO_ASSUMES + [
                "client settings: maxVersion per shape, sendFallbackSCSV "
                "symbolic; offered session: none, one with a session id, one "
                "with a TLS 1.2 ticket, one that is no longer resumable; "
                "the ClientHello is read from the wire"],
            patches=lambda s: (hello_proxies(), hello_stubs()),
            max_paths=400)
def c04_8(I, shape):
    """a client told to signal a fallback puts TLS_FALLBACK_SCSV into the
    ClientHello it sends whether or not it offers a session, and never
    otherwise; the renegotiation SCSV is always there"""
    st = HandshakeSettings()
    st.maxVersion = tuple(shape["max"])
    st.minVersion = (3, 1)
    flag = I.pick([False, True], "sendFallbackSCSV")
    st.sendFallbackSCSV = flag
    sess = None
    if shape["session"] != "none":
        sess = Session()
        sess.resumable = shape["session"] != "not-resumable"
        sess.cipherSuite = _CS.TLS_RSA_WITH_AES_128_CBC_SHA
        sess.masterSecret = bytearray(48)
        sess.srpUsername = None
        sess.serverName = None
        sess.sessionID = bytearray(b"S" * 32) \
            if shape["session"] != "ticket12" else bytearray(0)
        if shape["session"] == "ticket12":
            sess.tls_1_0_tickets = [Ticket(bytearray(b"T" * 40), 3600,
                                           bytearray(48),
                                           _CS.TLS_RSA_WITH_AES_128_CBC_SHA)]
    conn = client_conn()
    seen = {}

    def wire(ch):
        seen["ch"] = ch
        return []           # EOF: the obligation ends with the hello
    from tlslite.errors import TLSAbruptCloseError as _Abrupt
    try:
        out = run_client_hello(conn, st, wire, session=sess,
                               cert_params=(None, None))
    except (AssertionError, _Abrupt):
        out = None
    ch = seen.get("ch")
    I.check(ch is not None, "client-hello-was-sent")
    if ch is None:
        return
    suites = [int(x) for x in ch.cipher_suites]
    I.check((_CS.TLS_FALLBACK_SCSV in suites) == flag,
            "fallback-scsv-present-iff-requested",
            detail=lambda: dict(session=shape["session"], flag=flag))
    I.check(_CS.TLS_EMPTY_RENEGOTIATION_INFO_SCSV in suites or
            ch.getExtension(0xff01) is not None,
            "renegotiation-indication-present")
