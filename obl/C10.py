"""C10 - signatures and key agreement are sound, strict and never emitted when
faulty."""
from lib.framework import obligation
from symx.core import (SymInt, SymBool, SymBytes, AND, OR, NOT, IFF, IMPLIES,
                       seq_eq, assume, is_concrete_mode, ite, PathAbort,
                       Unsupported, mk_bytearray, sym_from_bytes, sym_range)
from symx.shims import sym_int_to_bytes, sym_powmod
from symx.uf import apply_uf
from models.fixtures import newbuf
from models.hashmodel import HASHLIB, HMACMOD, hash_bytes, HASH_ASSUMES

import tlslite.keyexchange as kx
import tlslite.utils.python_dsakey as dsa_mod
import tlslite.utils.cryptomath as cryptomath
import tlslite.utils.rsakey as rk
from tlslite.utils.rsakey import RSAKey
from tlslite.utils.python_dsakey import Python_DSAKey
from tlslite.constants import (CipherSuite, SignatureScheme, HashAlgorithm,
                               SignatureAlgorithm, GroupName)
from tlslite.errors import (TLSInternalError, TLSIllegalParameterException,
                            TLSDecryptionFailed, TLSDecodeError)
import tlslite.messages as M


# ---------------------------------------------------------------------------
# C10.3  DSA: acceptance conditions and sign->verify on a toy group
# ---------------------------------------------------------------------------

P, Q, G = 23, 11, 2          # 2 has order 11 modulo 23


def _dsa_patches(shape):
    def enc_int(v):
        return ("int", v)

    def enc_seq(*parts):
        return ("seq",) + tuple(parts)

    def rm_seq(sig):
        return sig[1:], b""

    def rm_int(body):
        return body[0][1], body[1:]
    return ([(dsa_mod, "powMod", sym_powmod)],
            [(dsa_mod, "encode_integer", enc_int),
                 (dsa_mod, "encode_sequence", enc_seq),
                 (dsa_mod, "remove_sequence", rm_seq),
                 (dsa_mod, "remove_integer", rm_int),
                 (dsa_mod, "compatHMAC", lambda x: x)])


def _shapes_c10_3(tier):
    return [dict(what="verify", x=x) for x in (1, 3, 7)] + \
        [dict(what="roundtrip", x=x) for x in (1, 5)]


@obligation("C10.3", _shapes_c10_3,
            functions=["tlslite.utils.python_dsakey:Python_DSAKey.verify",
                       "tlslite.utils.python_dsakey:Python_DSAKey.sign"],
            assumes=["toy DSA group p=23, q=11, g=2 (bounded, stated); DER "
                     "encoding/decoding (python-ecdsa) modelled as the "
                     "identity on the pair (r, s); (r, s), the digest and the "
                     "nonce k are symbolic over their whole range"],
            patches=_dsa_patches, max_paths=30000, also=("C05",))
def c10_3(I, shape):
    """DSA verify accepts only 0<r<q, 0<s<q with r == (g^u1 y^u2 mod p) mod
    q; everything it signs verifies"""
    x = shape["x"]
    y = pow(G, x, P)
    key = Python_DSAKey(p=P, q=Q, g=G, x=x, y=y)
    if shape["what"] == "verify":
        digest_byte = I.pick([0x00, 0x10, 0x50, 0xa0, 0xb0, 0xf7], "digest")
    else:
        digest_byte = I.byte("digest")
    data = newbuf([digest_byte])
    if shape["what"] == "verify":
        r = I.int_range(0, 12, "r")
        s = I.int_range(0, 12, "s")
        sig = ("seq", ("int", r), ("int", s))
        ok = key.verify(sig, data)
        # reference, written plainly
        d = digest_byte >> 4          # leftmost N=4 bits of the 8-bit digest
        rr, ss = int(r), int(s)
        dd = int(d)
        want = False
        if 0 < rr < Q and 0 < ss < Q:
            w = pow(ss, -1, Q)
            u1 = (dd * w) % Q
            u2 = (rr * w) % Q
            v = ((pow(G, u1, P) * pow(y, u2, P)) % P) % Q
            want = v == rr
        I.check(bool(ok) == want, "dsa-verify-equals-fips-186",
                detail=lambda: dict(r=rr, s=ss, digest=dd, got=bool(ok),
                                    want=want))
        return
    k = I.int_range(1, Q - 1, "k")
    old = dsa_mod.getRandomNumber
    dsa_mod.getRandomNumber = lambda lo, hi: k
    try:
        sig = key.sign(data)
    finally:
        dsa_mod.getRandomNumber = old
    r, s = sig[1][1], sig[2][1]
    if int(r) == 0 or int(s) == 0:
        # FIPS 186-4 4.6: a new k must be drawn; the library does not retry
        # (probability 2/q per signature on real groups) - not claimed
        I.cover("degenerate nonce")
        return
    I.check(key.verify(sig, data), "own-signature-verifies")
    # (that no OTHER digest verifies is not asserted here: in a toy group
    # with p ~ 2q distinct subgroup elements collide modulo q; exactness of
    # the acceptance condition is the 'verify' shape)


# ---------------------------------------------------------------------------
# C10.4  finite-field DH: peer share validation
# ---------------------------------------------------------------------------

def _shapes_c10_4(tier):
    return [dict(version=[3, 3]), dict(version=[3, 4])]


def _ff_patches(shape):
    return ([(kx, "powMod", sym_powmod)], [])


@obligation("C10.4", _shapes_c10_4, patches=_ff_patches,
            functions=["tlslite.keyexchange:FFDHKeyExchange.calc_shared_key",
                       "tlslite.keyexchange:FFDHKeyExchange."
                       "_normalise_peer_share",
                       "tlslite.keyexchange:FFDHKeyExchange.calc_public_value"],
            assumes=["toy safe prime p = 23 (g = 5) so that the whole range "
                     "of peer shares and private values is symbolic; modular "
                     "exponentiation is Python's pow (concretised exponent)"],
            max_paths=30000)
def c10_4(I, shape):
    """FFDH refuses 0, 1, p-1 and everything >= p, refuses a share of the
    wrong length, never returns a shared secret of 1 or p-1, and both sides
    compute the same secret"""
    version = tuple(shape["version"])
    p, g = 23, 5
    kex = kx.FFDHKeyExchange(0, version, generator=g, prime=p)
    Y = I.int_range(0, 40, "peer_share")
    a = I.int_range(1, 21, "private")
    if version >= (3, 4):
        share = newbuf([Y])
    else:
        share = int(Y)        # TLS <= 1.2 hands over a Python int
    try:
        S = kex.calc_shared_key(a, share)
        ok = True
    except TLSIllegalParameterException:
        ok = False
    yy, aa = int(Y), int(a)
    want = pow(yy, aa, p) if 2 <= yy < p - 1 else None
    valid = want is not None and want not in (1, p - 1)
    I.check(ok == valid, "peer-share-accepted-iff-in-range-and-not-small-"
            "subgroup", detail=lambda: dict(Y=yy, a=aa, ok=ok))
    if ok:
        I.check(int.from_bytes(bytes(S), "big") == want,
                "shared-secret-is-Y^a-mod-p")
        # agreement: the peer holding b with Y = g^b gets the same
        for b in range(1, p - 1):
            if pow(g, b, p) == yy:
                pub = pow(g, aa, p)
                if pub not in (1, p - 1):
                    S2 = kx.FFDHKeyExchange(0, version, generator=g,
                                            prime=p).calc_shared_key(
                        b, newbuf([pub]) if version >= (3, 4) else pub)
                    I.check(bytes(S2) == bytes(S), "both-sides-agree")
                break
    if version >= (3, 4):
        try:
            kex.calc_shared_key(a, newbuf([0, Y]))
            I.fail("wrong-length-share-accepted")
        except TLSIllegalParameterException:
            I.cover("wrong length refused")


# ---------------------------------------------------------------------------
# C10.5  X25519 / X448 wrapper: length and all-zero checks
# ---------------------------------------------------------------------------

def _shapes_c10_5(tier):
    return [dict(group="x25519"), dict(group="x448")]


@obligation("C10.5", _shapes_c10_5,
            functions=["tlslite.keyexchange:ECDHKeyExchange.calc_shared_key",
                       "tlslite.keyexchange:ECDHKeyExchange._non_zero_check"],
            assumes=["the scalar multiplication x25519/x448 is an "
                     "uninterpreted function of (private, peer share): the "
                     "obligation is about what the wrapper checks, for every "
                     "possible result (incl. all-zero, which small-order "
                     "inputs produce)"],
            max_paths=4000)
def c10_5(I, shape):
    """a peer share of the wrong length is refused and an all-zero result is
    never returned as shared secret"""
    group = GroupName.x25519 if shape["group"] == "x25519" else GroupName.x448
    size = 32 if shape["group"] == "x25519" else 56
    kex = kx.ECDHKeyExchange(group, (3, 4))
    share = I.bytes(size, "share")
    result = I.bytes(size, "result")
    calls = []

    def fun(private, peer):
        calls.append((private, peer))
        return newbuf(list(result))
    name = shape["group"]
    old = getattr(kx, name)
    setattr(kx, name, fun)
    try:
        try:
            S = kex.calc_shared_key(bytearray(size), newbuf(list(share)))
            ok = True
        except TLSIllegalParameterException:
            ok = False
        zero = AND([b == 0 for b in result])
        I.check(IFF(ok, NOT(zero)), "all-zero-shared-secret-refused")
        if ok:
            I.check(seq_eq(S, result) and len(calls) == 1 and
                    bool(seq_eq(calls[0][1], share)),
                    "result-of-the-scalar-multiplication-on-the-peer-share")
        for wrong in (size - 1, size + 1, 0):
            try:
                kex.calc_shared_key(bytearray(size), newbuf([1] * wrong))
                I.fail("wrong-length-share-accepted")
            except TLSIllegalParameterException:
                pass
    finally:
        setattr(kx, name, old)


# ---------------------------------------------------------------------------
# C10.6  never emit a signature that does not verify under the own key
# ---------------------------------------------------------------------------

class FaultyKey(object):
    """private key whose sign() returns ARBITRARY symbolic bytes (any
    computation fault) and whose verify() is a symbolic predicate"""

    def __init__(self, I, key_type, n=8):
        self.I = I
        self.key_type = key_type
        self.sig = I.bytes(n, "signature")
        self.verdict = I.bool("verifies")
        self.signed = []
        self.verified = []

        class _Curve(object):
            baselen = 32

        class _K(object):
            curve = _Curve()
        self.private_key = _K()
        self.public_key = _K()

    def __len__(self):
        return 2048

    def sign(self, data, padding=None, hashAlg=None, saltLen=None):
        self.signed.append((list(data), padding, hashAlg, saltLen))
        return newbuf(list(self.sig))

    def hashAndSign(self, data, rsaScheme=None, hAlg=None, sLen=None):
        self.signed.append((list(data), rsaScheme, hAlg, sLen))
        return newbuf(list(self.sig))

    def verify(self, sig, data, padding=None, hashAlg=None, saltLen=None):
        if callable(padding):
            padding = "der"       # ecdsa.util.sigdecode_der
        self.verified.append((list(sig), list(data), padding, hashAlg,
                              saltLen))
        return self.verdict

    def hashAndVerify(self, sig, data, rsaScheme=None, hAlg=None, sLen=None):
        self.verified.append((list(sig), list(data), rsaScheme, hAlg, sLen))
        return self.verdict


def _shapes_c10_6(tier):
    out = []
    for version in ((3, 1), (3, 3)):
        for kt, scheme in (("rsa", "rsa_pss_rsae_sha256"), ("rsa", "sha256"),
                           ("ecdsa", "sha256"), ("dsa", "sha1"),
                           ("Ed25519", "ed25519")):
            if version < (3, 3) and kt == "Ed25519":
                continue
            out.append(dict(site="ske", version=list(version), key=kt,
                            scheme=scheme))
    for version in ((3, 1), (3, 3)):
        for kt, alg in (("rsa", (4, 1)), ("rsa", (8, 4)), ("ecdsa", (4, 3))):
            out.append(dict(site="cv", version=list(version), key=kt,
                            alg=list(alg)))
    return out


@obligation("C10.6", _shapes_c10_6,
            functions=["tlslite.keyexchange:KeyExchange.signServerKeyExchange",
                       "tlslite.keyexchange:KeyExchange._tls12_signSKE",
                       "tlslite.keyexchange:KeyExchange._tls12_sign_ecdsa_SKE",
                       "tlslite.keyexchange:KeyExchange._tls12_sign_dsa_SKE",
                       "tlslite.keyexchange:KeyExchange._tls12_sign_eddsa_ske",
                       "tlslite.keyexchange:KeyExchange.makeCertificateVerify"],
            assumes=["the private key is a stub whose sign() returns "
                     "arbitrary symbolic bytes and whose verify() is a "
                     "symbolic predicate (any fault model)"],
            max_paths=4000, also=("C05",))
def c10_6(I, shape):
    """a ServerKeyExchange / CertificateVerify is produced only when the
    fresh signature verified under the signer's own key over the same bytes;
    otherwise TLSInternalError"""
    version = tuple(shape["version"])
    key = FaultyKey(I, shape["key"])

    class CH(object):
        random = bytearray(32)
        client_version = version

    class SH(object):
        random = bytearray(b"\x01" * 32)
        server_version = version
    if shape["site"] == "ske":
        suite = {"rsa": CipherSuite.TLS_ECDHE_RSA_WITH_AES_128_CBC_SHA,
                 "ecdsa": CipherSuite.TLS_ECDHE_ECDSA_WITH_AES_128_CBC_SHA,
                 "Ed25519": CipherSuite.TLS_ECDHE_ECDSA_WITH_AES_128_CBC_SHA,
                 "dsa": CipherSuite.TLS_DHE_DSS_WITH_AES_128_CBC_SHA}[
            shape["key"]]
        ke = kx.KeyExchange(suite, CH(), SH(), key)
        ske = M.ServerKeyExchange(suite, version)
        if shape["key"] == "dsa":
            ske.createDH(23, 5, 8)
        else:
            ske.createECDH(3, GroupName.secp256r1, bytearray(b"\x04" +
                                                             b"\x01" * 64))
        try:
            ke.signServerKeyExchange(ske, shape["scheme"])
            ok = True
        except TLSInternalError:
            ok = False
        I.check(IFF(ok, key.verdict), "ske-emitted-iff-own-signature-verifies")
        if ok:
            I.check(seq_eq(ske.signature, key.sig),
                    "ske-carries-the-verified-signature")
            I.check(len(key.signed) == 1 and len(key.verified) == 1 and
                    key.signed[0][0] == key.verified[0][1] and
                    bool(seq_eq(key.verified[0][0], key.sig)),
                    "verified-over-the-same-bytes-that-were-signed")
        return
    alg = tuple(shape["alg"])

    class HH(object):
        def digest(self, name=None):
            return bytearray(36 if name is None else 32)

        def copy(self):
            return self
    class CR(object):
        supported_signature_algs = [alg]
    try:
        cv = kx.KeyExchange.makeCertificateVerify(
            version, HH(), [alg], key, CR(), bytearray(48), bytearray(32),
            bytearray(32))
        ok = True
    except TLSInternalError:
        ok = False
    I.check(IFF(ok, key.verdict),
            "certificate-verify-emitted-iff-own-signature-verifies")
    if ok:
        I.check(seq_eq(cv.signature, key.sig),
                "certificate-verify-carries-the-verified-signature")


# ---------------------------------------------------------------------------
# C10.7  RSA PKCS#1 v1.5 signature verification is exact
# ---------------------------------------------------------------------------
import tlslite.utils.rsakey as rk
import tlslite.utils.cryptomath as cryptomath
from tlslite.utils.rsakey import RSAKey
from symx.core import mk_bytearray, sym_from_bytes, PathAbort, Unsupported
from symx.shims import sym_int_to_bytes


def _ident107(x):
    return x


def _tripwire107(n):
    raise AssertionError("randomness consulted by verify()")


def _proxies107(shape):
    return ([(rk, "bytearray", mk_bytearray),
             (cryptomath, "bytearray", mk_bytearray),
             (cryptomath, "bytes_to_int", sym_from_bytes),
             (cryptomath, "int_to_bytes", sym_int_to_bytes),
             (cryptomath, "compatHMAC", _ident107),
             (cryptomath, "compat26Str", _ident107)],
            [(rk, "getRandomBytes", _tripwire107)])


class PubStub(RSAKey):
    """RSAKey whose public operation returns an arbitrary integer < n: the
    obligation quantifies over what a signature 'decrypts' to"""

    def __init__(self, k, em_int, key_type="rsa"):
        self.n = (1 << (8 * k)) - 159
        self.e = 65537
        self.key_type = key_type
        self._em = em_int
        self.calls = 0

    def hasPrivateKey(self):
        return False

    def _rawPublicKeyOp(self, c):
        self.calls += 1
        return self._em


# RFC 8017 section 9.2 note 1: DER DigestInfo prefixes
DIGESTINFO = {
    "md5": (bytes.fromhex("3020300c06082a864886f70d020505000410"), 16),
    "sha1": (bytes.fromhex("3021300906052b0e03021a05000414"), 20),
    "sha224": (bytes.fromhex("302d300d06096086480165030402040500041c"), 28),
    "sha256": (bytes.fromhex("3031300d060960864801650304020105000420"), 32),
    "sha384": (bytes.fromhex("3041300d060960864801650304020205000430"), 48),
    "sha512": (bytes.fromhex("3051300d060960864801650304020305000440"), 64),
}
SHA1_NO_NULL = bytes.fromhex("301f300706052b0e03021a0414")


def _shapes_c10_7(tier):
    out = []
    for alg in sorted(DIGESTINFO):
        pre, hl = DIGESTINFO[alg]
        t = len(pre) + hl
        for k in ((t + 11, 128) if tier == "quick"
                  else (t + 11, t + 12, 96 if t + 11 < 96 else t + 20, 128,
                        256)):
            out.append(dict(alg=alg, k=k))
    out.append(dict(alg=None, k=64, raw=36))        # TLS <= 1.1: MD5||SHA1
    out.append(dict(alg="sha256", k=128, wrong_len=127))
    out.append(dict(alg="sha256", k=128, wrong_len=129))
    out.append(dict(alg="sha256", k=128, too_big=True))
    out.append(dict(alg="sha256", k=128, key_type="rsa-pss"))
    return out


@obligation("C10.7", _shapes_c10_7,
            functions=["tlslite.utils.rsakey:RSAKey.verify",
                       "tlslite.utils.rsakey:RSAKey._raw_pkcs1_verify",
                       "tlslite.utils.rsakey:RSAKey._raw_public_key_op_bytes",
                       "tlslite.utils.rsakey:RSAKey._addPKCS1Padding",
                       "tlslite.utils.rsakey:RSAKey.addPKCS1Prefix",
                       "tlslite.utils.rsakey:RSAKey.addPKCS1SHA1Prefix"],
            assumes=["the public-key operation returns an arbitrary symbolic "
                     "integer EM < n (k-byte modulus); signature bytes and "
                     "digest symbolic; reference: EMSA-PKCS1-v1_5 (RFC 8017 "
                     "9.2) written out: 00 01 FF..FF 00 DigestInfo || H with "
                     "at least 8 bytes of FF; SHA-1 also without the NULL "
                     "parameter (accepted on purpose by the library)",
                     "moduli from tLen+11 bytes up to 256 bytes"],
            patches=_proxies107, max_paths=2000, timeout=(600, 1800),
            also=("C05",))
def c10_7(I, shape):
    """verify() accepts exactly the signatures whose encoded message is the
    full-length EMSA-PKCS1-v1_5 encoding of this digest with this hash's
    DigestInfo - no shorter padding, no trailing garbage, no other hash id;
    wrong-length or out-of-range signatures and PKCS#1 v1.5 on an RSA-PSS key
    are refused"""
    k = shape["k"]
    alg = shape["alg"]
    hl = shape.get("raw") or DIGESTINFO[alg][1]
    slen = shape.get("wrong_len", k)
    em = I.bytes(k, "em")
    sig = I.bytes(slen, "sig")
    h = I.bytes(hl, "digest")
    n = (1 << (8 * k)) - 159
    em_int = sym_from_bytes(list(em)) if not is_concrete_mode() \
        else int.from_bytes(bytes(em), 'big')
    assume(em_int < n)
    key = PubStub(k, em_int, shape.get("key_type", "rsa"))
    if slen == k:
        s_int = sym_from_bytes(list(sig)) if not is_concrete_mode() \
            else int.from_bytes(bytes(sig), 'big')
        if shape.get("too_big"):
            assume(s_int >= n)
        else:
            assume(s_int < n)
    try:
        res = key.verify(newbuf(list(sig)), newbuf(list(h)), "pkcs1", alg)
    except (PathAbort, Unsupported):
        raise
    except Exception as e:
        I.fail("verify raised %s" % type(e).__name__, detail=repr(e)[:200])
        return
    if slen != k or shape.get("too_big") or \
            shape.get("key_type") == "rsa-pss":
        I.check(NOT(res), "malformed-signature-or-wrong-key-type-refused")
        return

    def enc(prefix):
        t = list(prefix) + list(h)
        return [0, 1] + [0xff] * (k - 3 - len(t)) + [0] + t
    if alg is None:
        good = seq_eq(list(em), enc(b""))
    elif alg == "sha1":
        good = OR(seq_eq(list(em), enc(DIGESTINFO["sha1"][0])),
                  seq_eq(list(em), enc(SHA1_NO_NULL)))
    else:
        good = seq_eq(list(em), enc(DIGESTINFO[alg][0]))
    I.check(IFF(res, good), "accepts-exactly-the-emsa-pkcs1-v1_5-encoding")
    I.check(key.calls >= 1, "public-operation-was-used")


# ---------------------------------------------------------------------------
# C10.8  RSASSA-PSS verification is exact
# ---------------------------------------------------------------------------
from models.hashmodel import HASHLIB, hash_bytes, HASH_ASSUMES, SIZES


def _proxies108(shape):
    return ([(rk, "bytearray", mk_bytearray),
             (cryptomath, "bytearray", mk_bytearray),
             (cryptomath, "bytes_to_int", sym_from_bytes),
             (cryptomath, "int_to_bytes", sym_int_to_bytes),
             (cryptomath, "compatHMAC", _ident107),
             (cryptomath, "compat26Str", _ident107)],
            [(rk, "hashlib", HASHLIB), (cryptomath, "hashlib", HASHLIB)])


def _shapes_c10_8(tier):
    out = []
    for alg in ("sha256", "sha384") if tier == "quick" else \
            ("sha1", "sha256", "sha384", "sha512"):
        hl = SIZES[alg][0]
        for slen in (hl, 0) if tier == "quick" else (hl, 0, 1, hl - 1):
            for slack in (0, 3) if tier == "quick" else (0, 1, 3, 17):
                out.append(dict(alg=alg, slen=slen,
                                k=hl + slen + 2 + slack))
    out.append(dict(alg="sha256", slen=32, k=65))       # emLen too short
    return out


def ref_mgf1(alg, seed, n):
    out = []
    c = 0
    while len(out) < n:
        out += list(hash_bytes(alg, list(seed) +
                               [(c >> 24) & 0xff, (c >> 16) & 0xff,
                                (c >> 8) & 0xff, c & 0xff]))
        c += 1
    return out[:n]


@obligation("C10.8", _shapes_c10_8,
            functions=["tlslite.utils.rsakey:RSAKey.verify",
                       "tlslite.utils.rsakey:RSAKey.RSASSA_PSS_verify",
                       "tlslite.utils.rsakey:RSAKey.EMSA_PSS_verify",
                       "tlslite.utils.rsakey:RSAKey.MGF1"],
            assumes=HASH_ASSUMES + [
                "the public-key operation returns an arbitrary symbolic "
                "integer EM < n (k-byte modulus, emBits = 8k - 1); message "
                "hash symbolic; reference: RFC 8017 section 9.1.2 written "
                "out over the same hash model (MGF1 with that hash)"],
            patches=_proxies108, max_paths=4000, timeout=(600, 1800),
            also=("C05",))
def c10_8(I, shape):
    """verify(padding='pss') accepts exactly the encoded messages that RFC
    8017 9.1.2 accepts for this hash, salt length and modulus size"""
    alg, slen, k = shape["alg"], shape["slen"], shape["k"]
    hl = SIZES[alg][0]
    em = I.bytes(k, "em")
    sig = I.bytes(k, "sig")
    mh = I.bytes(hl, "mhash")
    n = (1 << (8 * k)) - 159
    em_int = sym_from_bytes(list(em)) if not is_concrete_mode() \
        else int.from_bytes(bytes(em), 'big')
    s_int = sym_from_bytes(list(sig)) if not is_concrete_mode() \
        else int.from_bytes(bytes(sig), 'big')
    assume(em_int < n)
    assume(s_int < n)
    key = PubStub(k, em_int)
    try:
        res = key.verify(newbuf(list(sig)), newbuf(list(mh)), "pss", alg,
                         slen)
    except (PathAbort, Unsupported):
        raise
    except Exception as e:
        I.fail("verify raised %s" % type(e).__name__, detail=repr(e)[:200])
        return
    E = list(em)
    emlen = k
    if emlen < hl + slen + 2:
        I.check(NOT(res), "too-short-modulus-refused")
        return
    masked = E[:emlen - hl - 1]
    H = E[emlen - hl - 1:emlen - 1]
    dbmask = ref_mgf1(alg, H, emlen - hl - 1)
    db = [a ^ b for a, b in zip(masked, dbmask)]
    db[0] = db[0] & 0x7f
    pslen = emlen - hl - slen - 2
    salt = db[len(db) - slen:] if slen else []
    h2 = list(hash_bytes(alg, [0] * 8 + list(mh) + salt))
    good = AND(E[-1] == 0xbc, (masked[0] & 0x80) == 0,
               AND([x == 0 for x in db[:pslen]]) if pslen else True,
               db[pslen] == 1, seq_eq(H, h2))
    I.check(IFF(res, good), "accepts-exactly-what-rfc8017-9.1.2-accepts")
