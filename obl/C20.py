"""C20 - negotiated cipher-suite semantics match the suite's registered meaning.
(also C03.1: the suite filters admit exactly what the settings enable)"""
import hashlib as _py_hashlib

from lib.framework import obligation
from symx.core import (SymInt, SymBool, AND, OR, NOT, IFF, IMPLIES, assume,
                       is_concrete_mode, ite, mk_bytearray, sym_from_bytes,
                       PathAbort, Unsupported)
from models.fixtures import newbuf

import tlslite.recordlayer as rl
import tlslite.constants as consts
from tlslite.constants import CipherSuite
from tlslite.session import Session
import tlslite.handshakesettings as hs


# ---------------------------------------------------------------------------
# oracle: an independent reading of the IANA name
# ---------------------------------------------------------------------------

def oracle(name):
    """returns dict(kx, auth, cipher, keylen, ivlen, mac, maclen, prf,
    minver, tls13) or None for names that denote no TLS cipher suite"""
    if not name.startswith("TLS_") or name.endswith("_SCSV"):
        return None
    body = name[4:]
    o = {}
    if "_WITH_" in body:
        kx, rest = body.split("_WITH_")
        o["tls13"] = False
    else:
        kx, rest = None, body
        o["tls13"] = True
    kxmap = {"RSA": ("rsa", "rsa"), "DHE_RSA": ("dhe_rsa", "rsa"),
             "DHE_DSS": ("dhe_dsa", "dsa"), "DH_ANON": ("dh_anon", None),
             "ECDHE_RSA": ("ecdhe_rsa", "rsa"),
             "ECDHE_ECDSA": ("ecdhe_ecdsa", "ecdsa"),
             "ECDH_ANON": ("ecdh_anon", None), "SRP_SHA": ("srp_sha", None),
             "SRP_SHA_RSA": ("srp_sha_rsa", "rsa"),
             "SRP_SHA_DSS": ("srp_sha_dss", "dsa"),
             "DH_DSS": ("dh_dss", "dsa"), "DH_RSA": ("dh_rsa", "rsa"),
             "ECDH_ECDSA": ("ecdh_ecdsa", "ecdsa"),
             "ECDH_RSA": ("ecdh_rsa", "rsa"), None: ("tls13", "any")}
    if kx not in kxmap:
        return None
    o["kx"], o["auth"] = kxmap[kx]
    ciphers = [
        ("CHACHA20_POLY1305_draft_00", "chacha20-poly1305_draft00", 32, 4,
         True),
        ("CHACHA20_POLY1305", "chacha20-poly1305", 32, 12, True),
        ("AES_128_GCM", "aes128gcm", 16, 4, True),
        ("AES_256_GCM", "aes256gcm", 32, 4, True),
        ("AES_128_CCM_8", "aes128ccm_8", 16, 4, True),
        ("AES_256_CCM_8", "aes256ccm_8", 32, 4, True),
        ("AES_128_CCM", "aes128ccm", 16, 4, True),
        ("AES_256_CCM", "aes256ccm", 32, 4, True),
        ("AES_128_CBC", "aes128", 16, 16, False),
        ("AES_256_CBC", "aes256", 32, 16, False),
        ("3DES_EDE_CBC", "3des", 24, 8, False),
        ("RC4_128", "rc4", 16, 0, False),
        ("NULL", "null", 0, 0, False)]
    for tok, cname, kl, il, aead in ciphers:
        if rest == tok or rest.startswith(tok + "_"):
            o["cipher"], o["keylen"], o["ivlen"], o["aead"] = \
                cname, kl, il, aead
            tail = rest[len(tok):].lstrip("_")
            break
    else:
        return None
    hashes = {"MD5": ("md5", 16), "SHA": ("sha", 20), "SHA256": ("sha256", 32),
              "SHA384": ("sha384", 48), "": (None, 0)}
    if tail not in hashes:
        return None
    if o["aead"]:
        o["mac"], o["maclen"] = "aead", 0
        o["prf"] = "sha384" if tail == "SHA384" else "sha256"
        o["minver"] = (3, 4) if o["tls13"] else (3, 3)
        o["taglen"] = 8 if o["cipher"].endswith("ccm_8") else 16
    else:
        o["mac"], o["maclen"] = hashes[tail]
        o["prf"] = "sha384" if tail == "SHA384" else "sha256"
        o["minver"] = (3, 3) if tail in ("SHA256", "SHA384") else (3, 0)
        o["taglen"] = 0
    return o


ALL_LISTS = sorted(k for k, v in vars(CipherSuite).items()
                   if isinstance(v, list) and k.endswith("Suites"))


def sym_id(I):
    """16-bit symbolic suite id"""
    return I.uint(16, "suite")


KNOWN_IDS = sorted(set(x for l in ALL_LISTS for x in getattr(CipherSuite, l)
                       if x < 0x10000) |
                   set(x for x in CipherSuite.ietfNames if x < 0x10000))
RESIDUAL = 0x0a0a      # representative of 'an id the library does not know'


def pin(cs):
    """after the membership tests of the code under analysis have split the
    symbolic id, return the concrete id of this path; the residual class (id
    in no table) is represented by RESIDUAL after the solver has confirmed
    that the path condition excludes every known id"""
    if isinstance(cs, int):
        return cs
    if bool(AND([cs != x for x in KNOWN_IDS])):
        return RESIDUAL
    return int(cs)


class Rec(object):
    """recorder for cipher / MAC construction"""

    def __init__(self):
        self.ciphers = []
        self.macs = []
        self.calc = []

    def cipher(self, family):
        def create(key, *rest):
            iv = None
            if len(rest) == 2:
                iv = rest[0]
            self.ciphers.append((family, len(key), None if iv is None
                                 else len(iv), bytes(key),
                                 None if iv is None else bytes(iv)))

            class C(object):
                name = family
                isAEAD = family in ("gcm", "ccm", "ccm8", "chacha")
                isBlockCipher = family in ("aes", "3des")
                tagLength = 8 if family == "ccm8" else 16
                block_size = 8 if family == "3des" else 16
                implementation = "recorder"
            return C()
        return create

    def mac(self, kind):
        def create(key, digestmod=None):
            nm = getattr(digestmod, "__name__", str(digestmod))
            if nm.startswith("openssl_"):
                nm = nm[len("openssl_"):]
            self.macs.append((kind, nm, bytes(key)))

            class M(object):
                digest_size = len(bytes(key))
            return M()
        return create


def _rl_stubs(rec):
    return [(rl, "createAESGCM", rec.cipher("gcm")),
            (rl, "createAESCCM", rec.cipher("ccm")),
            (rl, "createAESCCM_8", rec.cipher("ccm8")),
            (rl, "createAES", rec.cipher("aes")),
            (rl, "createRC4", rec.cipher("rc4")),
            (rl, "createTripleDES", rec.cipher("3des")),
            (rl, "createCHACHA20", rec.cipher("chacha")),
            (rl, "createHMAC", rec.mac("hmac")),
            (rl, "createMAC_SSL", rec.mac("sslmac"))]


FAMILY = {"aes128gcm": "gcm", "aes256gcm": "gcm", "aes128ccm": "ccm",
          "aes256ccm": "ccm", "aes128ccm_8": "ccm8", "aes256ccm_8": "ccm8",
          "aes128": "aes", "aes256": "aes", "3des": "3des", "rc4": "rc4",
          "chacha20-poly1305": "chacha",
          "chacha20-poly1305_draft00": "chacha", "null": None}
HASHFN = {"md5": "md5", "sha": "sha1", "sha256": "sha256",
          "sha384": "sha384"}


KX_LISTS = ("certSuites", "dheCertSuites", "dheDsaSuites", "ecdheCertSuites",
            "ecdheEcdsaSuites", "srpSuites", "srpCertSuites", "anonSuites",
            "ecdhAnonSuites", "tls13Suites")


def negotiable(cs):
    """ids the library can put into a ServerHello: admitted by some protocol
    version (filterForVersion's lists) and by some key-exchange family
    (_filterSuites' lists); static (EC)DH ids carry cipher parameters but no
    key exchange and can never be selected"""
    return (cs in CipherSuite.ssl3Suites or cs in CipherSuite.tls12Suites
            or cs in CipherSuite.tls13Suites) and \
        any(cs in getattr(CipherSuite, l) for l in KX_LISTS)


def _shapes_c20_1(tier):
    out = []
    for ver in ((3, 0), (3, 1), (3, 2), (3, 3)):
        for client in (True, False):
            out.append(dict(what="pending", version=list(ver), client=client))
    out.append(dict(what="tls13"))
    out.append(dict(what="names"))
    out.append(dict(what="version-filter"))
    return out


from contextlib import contextmanager


@contextmanager
def _patched(plist):
    saved = []
    for mod, name, val in plist:
        saved.append((mod, name, getattr(mod, name)))
        setattr(mod, name, val)
    try:
        yield
    finally:
        for mod, name, old in reversed(saved):
            setattr(mod, name, old)


@obligation("C20.1", _shapes_c20_1,
            functions=["tlslite.recordlayer:RecordLayer._getCipherSettings",
                       "tlslite.recordlayer:RecordLayer._getMacSettings",
                       "tlslite.recordlayer:RecordLayer._getHMACMethod",
                       "tlslite.recordlayer:RecordLayer.calcPendingStates",
                       "tlslite.recordlayer:RecordLayer.calcTLS1_3PendingState",
                       "tlslite.recordlayer:RecordLayer._calcTLS1_3KeyUpdate",
                       "tlslite.constants:CipherSuite.filterForVersion",
                       "tlslite.constants:CipherSuite.canonicalCipherName",
                       "tlslite.constants:CipherSuite.canonicalMacName",
                       "tlslite.session:Session.getCipherName",
                       "tlslite.session:Session.getMacName"],
            assumes=["the suite id is a symbolic 16-bit value; the membership "
                     "tests of the real code split it into one path per id "
                     "class (incl. 'in no list')",
                     "oracle = independent parse of CipherSuite.ietfNames[id] "
                     "(key exchange, authentication, cipher, key/IV/tag "
                     "length, MAC, PRF hash, minimum version per RFC 5246/"
                     "5288/5289/6655/7905/8446)",
                     "cipher and MAC constructors and calc_key / "
                     "HKDF_expand_label are recorders: what is checked is "
                     "which primitive is built from which key-block slice"],
            max_paths=4000, timeout=(300, 900))
def c20_1(I, shape):
    """per-id record protection parameters equal the IANA name's meaning"""
    cs = sym_id(I)
    what = shape["what"]
    if what == "version-filter":
        minor = I.int_range(0, 4, "minor")
        ver = (3, int(minor))
        # filterForVersion builds a set: a symbolic id would be hashed, i.e.
        # concretised over 2^16 values; split on the known ids first
        known = sorted(set(x for l in ALL_LISTS
                           for x in getattr(CipherSuite, l)))
        if not any(bool(cs == x) for x in known):
            I.check(CipherSuite.filterForVersion([0x0a0a], ver, ver) == [],
                    "unknown-id-never-admitted")
            return
        got = CipherSuite.filterForVersion([cs], ver, ver)
        k = pin(cs)
        name = CipherSuite.ietfNames.get(k)
        o = oracle(name) if name else None
        if got:
            I.check(o is not None and (
                (o["tls13"] and ver == (3, 4)) or
                (not o["tls13"] and ver <= (3, 3) and ver >= o["minver"])),
                "suite-admitted-only-in-versions-that-define-it",
                detail=lambda: dict(suite=hex(k), name=name, version=ver))
        else:
            # not admitted: must not be a suite the version defines AND that
            # the library otherwise treats as negotiable
            if o is not None and negotiable(k):
                I.check(not ((o["tls13"] and ver == (3, 4)) or
                             (not o["tls13"] and (3, 3) >= ver >=
                              o["minver"])),
                        "no-defined-suite-dropped-by-version-filter",
                        detail=lambda: dict(suite=hex(k), name=name,
                                            version=ver))
            else:
                I.cover("not negotiable")
        return
    if what == "names":
        cn = CipherSuite.canonicalCipherName(cs)
        mn = CipherSuite.canonicalMacName(cs)
        k = pin(cs)
        name = CipherSuite.ietfNames.get(k)
        o = oracle(name) if name else None
        s = Session()
        s.cipherSuite = k
        if not negotiable(k):
            I.cover("not negotiable")
            return
        I.check(o is not None, "negotiable-suite-has-a-registered-name")
        I.check(cn == o["cipher"] and s.getCipherName() == o["cipher"],
                "cipher-name-accessor",
                detail=lambda: dict(suite=hex(k), name=name, got=cn))
        want_mac = None if o["aead"] else o["mac"]
        I.check(mn == want_mac and s.getMacName() == want_mac,
                "mac-name-accessor",
                detail=lambda: dict(suite=hex(k), name=name, got=mn))
        # the lists partition the negotiable suites
        fam = [l for l in ("aes128Suites", "aes256Suites", "aes128GcmSuites",
                           "aes256GcmSuites", "aes128CcmSuites",
                           "aes128Ccm_8Suites", "aes256CcmSuites",
                           "aes256Ccm_8Suites", "chacha20Suites",
                           "chacha20draft00Suites", "rc4Suites",
                           "tripleDESSuites", "nullSuites")
               if k in getattr(CipherSuite, l)]
        I.check(len(fam) == 1, "exactly-one-cipher-family")
        macs = [l for l in ("aeadSuites", "shaSuites", "sha256Suites",
                            "sha384Suites", "md5Suites")
                if k in getattr(CipherSuite, l)]
        I.check(len(macs) == 1, "exactly-one-mac-family")
        I.check((k in CipherSuite.tls13Suites) == o["tls13"] and
                not (k in CipherSuite.tls13Suites and
                     (k in CipherSuite.tls12Suites or
                      k in CipherSuite.ssl3Suites)),
                "tls13-suites-disjoint-from-older")
        I.check((k in CipherSuite.sha384PrfSuites) == (o["prf"] == "sha384"),
                "prf-family")
        kxl = {"rsa": "certSuites", "dhe_rsa": "dheCertSuites",
               "dhe_dsa": "dheDsaSuites", "ecdhe_rsa": "ecdheCertSuites",
               "ecdhe_ecdsa": "ecdheEcdsaSuites", "srp_sha": "srpSuites",
               "srp_sha_rsa": "srpCertSuites", "dh_anon": "anonSuites",
               "ecdh_anon": "ecdhAnonSuites", "tls13": "tls13Suites"}
        kxs = [n for n, l in kxl.items() if k in getattr(CipherSuite, l)]
        I.check(kxs == [o["kx"]], "exactly-the-registered-key-exchange",
                detail=lambda: dict(suite=hex(k), name=name, got=kxs))
        return
    rec = Rec()
    if what == "tls13":
        labels = []

        def fake_hkdf(secret, label, ctx, length, alg):
            labels.append((bytes(secret), bytes(label), bytes(ctx), length,
                           alg))
            return bytearray([len(labels)] * length)
        layer = rl.RecordLayer(None)
        layer.version = (3, 4)
        layer.client = bool(I.pick([True, False], "client"))
        with _patched(_rl_stubs(rec) + [(rl, "HKDF_expand_label", fake_hkdf)]):
            try:
                layer.calcTLS1_3PendingState(cs, bytearray(b"C" * 48),
                                             bytearray(b"S" * 48), ["python"])
                ok = True
            except (AssertionError, TypeError):
                # ids outside tls13Suites (unknown id / NULL cipher)
                ok = False
            k = pin(cs)
            name = CipherSuite.ietfNames.get(k)
            o = oracle(name) if name else None
            if not ok:
                I.check(not (k in CipherSuite.tls13Suites),
                        "every-tls13-suite-has-parameters")
                return
            if k not in CipherSuite.tls13Suites:
                I.cover("not a TLS 1.3 suite")
                return
            I.check(o is not None and o["tls13"], "tls13-suite-name")
            want = []
            for sec in (b"C" * 48, b"S" * 48):
                want.append((sec, b"key", b"", o["keylen"], o["prf"]))
                want.append((sec, b"iv", b"", 12, o["prf"]))
            I.check(labels == want, "tls13-key-iv-derivation",
                    detail=lambda: dict(suite=hex(k), name=name,
                                        got=repr(labels)))
            I.check([c[0] for c in rec.ciphers] == [FAMILY[o["cipher"]]] * 2
                    and [c[1] for c in rec.ciphers] == [o["keylen"]] * 2,
                    "tls13-cipher-family-and-key-length",
                    detail=lambda: dict(suite=hex(k), name=name,
                                        got=repr(rec.ciphers)))
            # role assignment: client writes with the client secret
            cw = layer._pendingWriteState if layer.client \
                else layer._pendingReadState
            I.check(bytes(cw.fixedNonce) == bytes([2] * 12),
                    "client-traffic-secret-protects-client-writes")
            # key update uses the suite's hash
            del labels[:]
            new_secret, st = layer._calcTLS1_3KeyUpdate(k, bytearray(b"A" *
                                                                     48))
            hl = 48 if o["prf"] == "sha384" else 32
            I.check(labels[0] == (b"A" * 48, b"traffic upd", b"", hl,
                                  o["prf"]) and
                    all(l[4] == o["prf"] for l in labels) and
                    labels[1][3] == o["keylen"] and labels[2][3] == 12,
                    "key-update-uses-the-suite-hash",
                    detail=lambda: dict(suite=hex(k), name=name,
                                        got=repr(labels)))
        return
    # TLS <= 1.2 pending states
    version = tuple(shape["version"])
    layer = rl.RecordLayer(None)
    layer.version = version
    layer.client = shape["client"]
    asked = []

    def fake_calc_key(ver, secret, suite, label, handshake_hashes=None,
                      client_random=None, server_random=None,
                      output_length=None):
        asked.append((ver, bytes(secret), int(suite), bytes(label),
                      bytes(client_random), bytes(server_random),
                      output_length))
        return bytearray((7 * i + 3) & 0xff for i in range(output_length))
    with _patched(_rl_stubs(rec) + [(rl, "calc_key", fake_calc_key),
                                    (rl, "getRandomBytes",
                                     lambda n: bytearray(n))]):
        try:
            layer.calcPendingStates(cs, bytearray(b"M" * 48),
                                    bytearray(b"c" * 32),
                                    bytearray(b"s" * 32), ["python"])
            ok = True
        except AssertionError:
            ok = False
    k = pin(cs)
    name = CipherSuite.ietfNames.get(k)
    o = oracle(name) if name else None
    admitted = bool(CipherSuite.filterForVersion([k], version, version))
    if not ok:
        I.check(not admitted, "every-admitted-suite-has-parameters",
                detail=lambda: dict(suite=hex(k), name=name))
        return
    if not admitted:
        I.cover("not negotiable in this version")
        return
    I.check(o is not None and not o["tls13"], "suite-name")
    total = 2 * o["maclen"] + 2 * o["keylen"] + 2 * o["ivlen"]
    I.check(asked == [(version, b"M" * 48, k, b"key expansion", b"c" * 32,
                       b"s" * 32, total)], "key-block-request",
            detail=lambda: dict(suite=hex(k), name=name, got=repr(asked)))
    kb = bytes((7 * i + 3) & 0xff for i in range(total))
    ml, kl, il = o["maclen"], o["keylen"], o["ivlen"]
    cmac, smac = kb[:ml], kb[ml:2 * ml]
    ckey, skey = kb[2 * ml:2 * ml + kl], kb[2 * ml + kl:2 * ml + 2 * kl]
    civ = kb[2 * ml + 2 * kl:2 * ml + 2 * kl + il]
    siv = kb[2 * ml + 2 * kl + il:]
    fam = FAMILY[o["cipher"]]
    if o["aead"]:
        I.check(rec.macs == [], "aead-has-no-mac")
        I.check([(c[0], c[3]) for c in rec.ciphers] ==
                [(fam, ckey), (fam, skey)], "aead-keys-from-key-block",
                detail=lambda: dict(suite=hex(k), name=name,
                                    got=repr(rec.ciphers)))
        cst = layer._pendingWriteState if layer.client \
            else layer._pendingReadState
        sst = layer._pendingReadState if layer.client \
            else layer._pendingWriteState
        I.check(bytes(cst.fixedNonce) == civ and bytes(sst.fixedNonce) == siv,
                "aead-fixed-nonce-from-key-block")
        I.check(cst.encContext.tagLength == o["taglen"], "aead-tag-length")
    else:
        kind = "sslmac" if version == (3, 0) else "hmac"
        I.check(rec.macs == [(kind, HASHFN[o["mac"]], cmac),
                             (kind, HASHFN[o["mac"]], smac)],
                "mac-algorithm-and-keys-from-key-block",
                detail=lambda: dict(suite=hex(k), name=name,
                                    got=repr(rec.macs)))
        if fam is None:
            I.check(rec.ciphers == [], "null-cipher")
        else:
            I.check([(c[0], c[3], c[4]) for c in rec.ciphers] ==
                    [(fam, ckey, civ), (fam, skey, siv)],
                    "cipher-keys-and-ivs-from-key-block",
                    detail=lambda: dict(suite=hex(k), name=name,
                                        got=repr(rec.ciphers)))
    # role assignment: the client's write state is built from the client
    # slices, the server's read state from the same
    w = layer._pendingWriteState
    r = layer._pendingReadState
    first = rec.ciphers[0] if rec.ciphers else None
    if fam is not None:
        mine = w.encContext if layer.client else r.encContext
        I.check(mine is not None, "client-state-present")


# ---------------------------------------------------------------------------
# C20.2 / C03.1  _filterSuites admits exactly what the settings enable
# ---------------------------------------------------------------------------

def _shapes_c20_2(tier):
    return [dict(version=[3, m]) for m in (0, 1, 2, 3, 4)]


class _S(object):
    pass


@obligation("C20.2", _shapes_c20_2,
            functions=["tlslite.constants:CipherSuite._filterSuites"],
            assumes=["suite id symbolic (one path per id class); settings = "
                     "the three names the oracle derives from the IANA name, "
                     "with ONE of the name lists perturbed: a symbolic "
                     "selector removes the relevant name or replaces it by "
                     "any other name of the vocabulary, or all names are "
                     "enabled",
                     "oracle as in C20.1"],
            max_paths=60000, timeout=(400, 1200), also=("C03",))
def c20_2(I, shape):
    """a suite passes the settings filter iff its cipher, MAC and key
    exchange are enabled and the version defines it"""
    version = tuple(shape["version"])
    cs = sym_id(I)
    assume(OR([cs == k for k in sorted(CipherSuite.ietfNames)
               if k < 0x10000]))
    k = None
    # pin the id first (cheap membership test over the name table)
    for cand in sorted(CipherSuite.ietfNames):
        if cand < 0x10000 and bool(cs == cand):
            k = cand
            break
    name = CipherSuite.ietfNames[k]
    o = oracle(name)
    if o is None or not negotiable(k):
        s = _S()
        s.macNames = list(hs.ALL_MAC_NAMES)
        s.cipherNames = list(hs.ALL_CIPHER_NAMES)
        s.keyExchangeNames = list(hs.KEY_EXCHANGE_NAMES)
        s.maxVersion = version
        I.check(CipherSuite._filterSuites([k], s, version) == [],
                "non-negotiable-id-never-passes",
                detail=lambda: dict(suite=hex(k), name=name))
        return
    mac = o["mac"]
    kx = o["kx"]
    mode = I.pick(["exact", "all", "drop-mac", "drop-cipher", "drop-kx",
                   "swap-mac", "swap-cipher", "swap-kx"], "mode")
    macs, ciphers, kxs = [mac], [o["cipher"]], ([] if kx == "tls13" else [kx])
    enabled = True
    if mode == "all":
        macs, ciphers, kxs = (list(hs.ALL_MAC_NAMES),
                              list(hs.ALL_CIPHER_NAMES),
                              list(hs.KEY_EXCHANGE_NAMES))
    elif mode == "drop-mac":
        macs, enabled = [m for m in hs.ALL_MAC_NAMES if m != mac], False
    elif mode == "drop-cipher":
        ciphers = [c for c in hs.ALL_CIPHER_NAMES if c != o["cipher"]]
        enabled = False
    elif mode == "drop-kx":
        kxs = [x for x in hs.KEY_EXCHANGE_NAMES if x != kx]
        enabled = (kx == "tls13")
    elif mode == "swap-mac":
        macs = [I.pick([m for m in hs.ALL_MAC_NAMES if m != mac], "alt")]
        enabled = False
    elif mode == "swap-cipher":
        ciphers = [I.pick([c for c in hs.ALL_CIPHER_NAMES
                           if c != o["cipher"]], "alt")]
        enabled = False
    elif mode == "swap-kx":
        kxs = [I.pick([x for x in hs.KEY_EXCHANGE_NAMES if x != kx], "alt")]
        enabled = (kx == "tls13")
    s = _S()
    s.macNames, s.cipherNames, s.keyExchangeNames = macs, ciphers, kxs
    s.maxVersion = version
    got = CipherSuite._filterSuites([k], s, version)
    # _filterSuites itself only knows "version >= 3.3" features; whether the
    # suite belongs to the version at all is filterForVersion's job
    ver_ok = version >= (3, 3) if (o["aead"] or o["mac"] in ("sha256",
                                                             "sha384")) \
        else True
    if o["tls13"]:
        ver_ok = version >= (3, 4)
    if kx not in hs.KEY_EXCHANGE_NAMES and kx != "tls13":
        enabled = False      # e.g. srp_sha_dss: no name enables it
    I.check((got == [k]) == (enabled and ver_ok),
            "filter-admits-iff-enabled",
            detail=lambda: dict(suite=hex(k), name=name, mode=mode,
                                macs=macs, ciphers=ciphers, kxs=kxs,
                                got=got, version=version))
