"""C16 - post-handshake control traffic never disturbs the data stream or key
synchronisation."""
import socket

from lib.framework import obligation
from symx.core import (SymInt, SymBool, SymBytes, AND, OR, NOT, IFF, IMPLIES,
                       seq_eq, assume, is_concrete_mode, ite, PathAbort,
                       Unsupported)
from models.fixtures import newbuf
from models.crypto import StubAEAD
from models.conn import (conn_proxies, CONN_ASSUMES, make_conn, record,
                         FaultSock, split_records)

import tlslite.tlsrecordlayer as trl
import tlslite.recordlayer as rl
from tlslite.recordlayer import ConnectionState
from tlslite.constants import (ContentType, AlertLevel, AlertDescription,
                               HandshakeType, HeartbeatMessageType,
                               KeyUpdateMessageType)
from tlslite.errors import (TLSRemoteAlert, TLSLocalAlert,
                            TLSAbruptCloseError, TLSAlert, TLSInternalError,
                            TLSIllegalParameterException,
                            TLSClosedConnectionError)
from obl.C17 import CONN_FUNCS, _run


# ---------------------------------------------------------------------------
# C16.1  KeyUpdate keeps both directions' keys in step (two live endpoints)
# ---------------------------------------------------------------------------

def model_keyupdate(self, cipherSuite, app_secret):
    """RecordLayer._calcTLS1_3KeyUpdate with HKDF as a free constructor:
    the next secret is the term ('upd', secret); the AEAD key is named after
    the secret term, so two states hold the same key iff they were derived
    from the same secret by the same number of updates"""
    new_secret = ("upd", app_secret)
    st = ConnectionState()
    st.macContext = None
    st.encContext = StubAEAD("key%s" % _depth(new_secret), "aes128gcm", 12,
                             16)
    st.encContext.term = new_secret
    st.fixedNonce = bytearray([_depthn(new_secret)] * 12)
    return new_secret, st


def _depthn(t):
    n = 0
    while isinstance(t, tuple):
        n += 1
        t = t[1]
    return n


def _depth(t):
    base = t
    while isinstance(base, tuple):
        base = base[1]
    return "%s%d" % (base, _depthn(t))


def _pair_patches(shape):
    return (conn_proxies(),
            [(rl.RecordLayer, "_calcTLS1_3KeyUpdate", model_keyupdate)])


OPS = ["wA", "wB", "kA0", "kA1", "kB0", "kB1"]


def _words(n):
    if n == 0:
        return [[]]
    return [w + [o] for w in _words(n - 1) for o in OPS]


def _shapes_c16_1(tier):
    out = []
    for n in ((1, 2) if tier == "quick" else (1, 2, 3)):
        for w in _words(n):
            # at least one key update and one write somewhere
            if any(o.startswith("k") for o in w):
                out.append(dict(word=w))
    if tier == "quick":
        for w in (["kA1", "wA", "wB"], ["kA1", "kB1", "wA"],
                  ["kB0", "kB0", "wB"], ["wA", "kB1", "wB"],
                  ["kA0", "kB1", "wA"], ["kA1", "kA1", "wB"]):
            out.append(dict(word=w + ["wA", "wB"]))
    return out


def _install_keys(conn, client):
    """initial application traffic keys: client write = 'C0', server write
    = 'S0' (what calcTLS1_3PendingState + changeXState leave behind)"""
    r = conn._recordLayer
    w, rd = ("C", "S") if client else ("S", "C")
    for st, nm in ((r._writeState, w), (r._readState, rd)):
        st.encContext = StubAEAD("key%s0" % nm, "aes128gcm", 12, 16)
        st.encContext.term = nm
        st.fixedNonce = bytearray(12)
    conn.session.cl_app_secret = "C"
    conn.session.sr_app_secret = "S"


@obligation("C16.1", _shapes_c16_1,
            functions=CONN_FUNCS + [
                "tlslite.tlsrecordlayer:TLSRecordLayer._handle_keyupdate_request",
                "tlslite.tlsrecordlayer:TLSRecordLayer.send_keyupdate_request",
                "tlslite.recordlayer:RecordLayer.calcTLS1_3KeyUpdate_sender",
                "tlslite.recordlayer:RecordLayer.calcTLS1_3KeyUpdate_reciever",
                "tlslite.recordlayer:RecordLayer._encryptThenSeal",
                "tlslite.recordlayer:RecordLayer._decryptAndUnseal"],
            assumes=CONN_ASSUMES[:1] + [
                "two real TLS 1.3 TLSConnection objects joined by in-memory "
                "pipes; record protection = AEAD model whose key is NAMED "
                "after the traffic-secret term, HKDF('traffic upd') a free "
                "constructor: records open only under the same secret term",
                "operation word over {A/B writes symbolic data, A/B sends "
                "KeyUpdate requested/not requested}; after each operation "
                "the peer reads whatever arrived (and its reply is read "
                "back)"],
            patches=_pair_patches, max_paths=4000, timeout=(300, 1200))
def c16_1(I, shape):
    """after any word of writes and KeyUpdates both directions' keys are in
    step and application data is delivered exactly and in order"""
    A, sa = make_conn((3, 4), True, sock=FaultSock(block_when_empty=True))
    B, sb = make_conn((3, 4), False, sock=FaultSock(block_when_empty=True))
    _install_keys(A, True)
    _install_keys(B, False)
    ends = {"A": (A, sa, B, sb), "B": (B, sb, A, sa)}
    expect = {"A": [], "B": []}     # bytes each side should still receive
    got = {"A": [], "B": []}

    def pump():
        """move bytes both ways and let each side process what arrived"""
        for _ in range(4):
            moved = False
            for me in ("A", "B"):
                conn, s, peer, ps = ends[me]
                if len(s.out):
                    ps.inp = ps.inp + s.out
                    s.out = newbuf()
                    moved = True
            if not moved:
                break
            for me in ("A", "B"):
                conn, s, peer, ps = ends[me]
                # process everything that has arrived; stop at would-block
                for _round in range(6):
                    blocked = False
                    for r in conn.readAsync(max=None, min=0):
                        if isinstance(r, int) and not isinstance(r, bool):
                            if r == 0:
                                blocked = True
                                break
                            continue
                        got[me] += list(r)
                    if blocked or (not len(s.inp) and
                                   not len(conn.sock._read_buffer)):
                        break
    try:
        for op in shape["word"]:
            me = op[1]
            conn, s, peer, ps = ends[me]
            if op[0] == "w":
                d = I.bytes(2, "data")
                _run(conn.writeAsync(d))
                expect["B" if me == "A" else "A"] += list(d)
            else:
                mt = KeyUpdateMessageType.update_requested if op[2] == "1" \
                    else KeyUpdateMessageType.update_not_requested
                _run(conn.send_keyupdate_request(mt))
            pump()
    except (TLSAlert, TLSAbruptCloseError, socket.error) as e:
        I.fail("control traffic broke the connection: %s" % type(e).__name__,
               detail=repr(e))
        return
    for side in ("A", "B"):
        I.check(len(got[side]) == len(expect[side]) and
                bool(seq_eq(got[side], expect[side])),
                "application-data-delivered-exactly-in-order")
    ra, rb = A._recordLayer, B._recordLayer
    I.check(ra._writeState.encContext.term == rb._readState.encContext.term
            and rb._writeState.encContext.term ==
            ra._readState.encContext.term,
            "traffic-keys-in-step-in-both-directions",
            detail=lambda: dict(Aw=repr(ra._writeState.encContext.term),
                                Br=repr(rb._readState.encContext.term),
                                Bw=repr(rb._writeState.encContext.term),
                                Ar=repr(ra._readState.encContext.term)))
    I.check(A.session.cl_app_secret == B.session.cl_app_secret and
            A.session.sr_app_secret == B.session.sr_app_secret and
            A.session.cl_app_secret == ra._writeState.encContext.term and
            A.session.sr_app_secret == ra._readState.encContext.term,
            "session-secrets-agree-with-each-other-and-with-the-keys")
    I.check(not A.closed and not B.closed, "both-ends-still-open")


# ---------------------------------------------------------------------------
# C16.2  dispatch of post-handshake messages
# ---------------------------------------------------------------------------

def _shapes_c16_2(tier):
    out = []
    for ver in ((3, 3), (3, 4)):
        for client in (True, False):
            out.append(dict(version=list(ver), client=client))
    return out


def _rec_patches(shape):
    calls = []

    def rec_sender(self, cs, cl, sr):
        calls.append("peer-updated")
        return ("upd", cl), ("upd", sr)

    def rec_receiver(self, cs, cl, sr):
        calls.append("we-updated")
        return cl, sr
    _rec_patches.calls = calls
    return (conn_proxies(),
            [(rl.RecordLayer, "calcTLS1_3KeyUpdate_sender", rec_sender),
             (rl.RecordLayer, "calcTLS1_3KeyUpdate_reciever", rec_receiver)])


@obligation("C16.2", _shapes_c16_2, functions=CONN_FUNCS + [
                "tlslite.tlsrecordlayer:TLSRecordLayer._handle_keyupdate_request"],
            assumes=CONN_ASSUMES + [
                "next record: handshake content with symbolic handshake type "
                "and one symbolic body byte, followed by application data; "
                "key derivation replaced by a recorder"],
            patches=_rec_patches, max_paths=4000)
def c16_2(I, shape):
    """only NewSessionTicket/KeyUpdate(/PHA) are accepted after the
    handshake; KeyUpdate with an unknown request value is illegal_parameter;
    control messages are never delivered as data"""
    version = tuple(shape["version"])
    client = shape["client"]
    calls = _rec_patches.calls
    del calls[:]
    htype = I.byte("htype")
    b = I.byte("b")
    data = I.bytes(2, "data")
    wire = record(ContentType.handshake, [htype, 0, 0, 1, b]) + \
        record(ContentType.application_data, data)
    conn, sock = make_conn(version, client, wire)
    sess = conn.session
    try:
        got = _run(conn.readAsync(max=None, min=1))
        exc = None
    except (TLSAlert, TLSAbruptCloseError) as e:
        got, exc = None, e
    except Exception as e:
        I.fail("read raised undocumented %s" % type(e).__name__,
               detail=repr(e))
        return
    sent = split_records(sock.out)
    if exc is None and version < (3, 4):
        # TLS <= 1.2: the only handshake record that does not end the
        # connection is a refused renegotiation attempt (C06.2)
        I.check(htype == (HandshakeType.hello_request if client
                          else HandshakeType.client_hello),
                "tls12-only-refused-renegotiation-is-skipped")
        I.check(seq_eq(got, data), "data-after-refused-renegotiation")
        return
    if exc is None:
        I.check(version == (3, 4) and
                bool(htype == HandshakeType.key_update),
                "only-key-update-fits-this-record")
        I.check(OR(b == 0, b == 1), "key-update-request-value-known")
        I.check(seq_eq(got, data), "control-message-not-delivered-as-data")
        I.check(calls[:1] == ["peer-updated"],
                "read-key-updated-on-key-update")
        if bool(b == 1):
            I.check(len(sent) == 1 and sent[0][0] == ContentType.handshake
                    and list(sent[0][2]) == [HandshakeType.key_update, 0, 0,
                                             1, 0] and
                    calls == ["peer-updated", "we-updated"],
                    "requested-update-answered-with-not-requested")
        else:
            I.check(sent == [] and calls == ["peer-updated"],
                    "unrequested-update-not-answered")
        return
    I.check(isinstance(exc, TLSLocalAlert), "local-alert")
    I.check(conn.closed and sess.resumable is False,
            "closed-and-not-resumable")
    if version == (3, 4) and bool(htype == HandshakeType.key_update):
        I.check(AND(b != 0, b != 1,
                    exc.description == AlertDescription.illegal_parameter),
                "unknown-key-update-value-is-illegal_parameter")
        I.check(calls == [], "no-key-change-on-malformed-key-update")
    I.check(len(sent) >= 1 and sent[-1][0] == ContentType.alert and
            bool(sent[-1][2][0] == AlertLevel.fatal),
            "fatal-alert-sent-first")


# ---------------------------------------------------------------------------
# C16.3  heartbeat
# ---------------------------------------------------------------------------

def _shapes_c16_3(tier):
    out = []
    for ver in ((3, 3), (3, 4)):
        for plen in (0, 3):
            for pad in ((0, 15, 16, 17) if tier == "quick"
                        else (0, 1, 15, 16, 17, 32)):
                out.append(dict(version=list(ver), plen=plen, pad=pad))
    return out


@obligation("C16.3", _shapes_c16_3, functions=CONN_FUNCS + [
                "tlslite.messages:Heartbeat.parse",
                "tlslite.messages:Heartbeat.create_response",
                "tlslite.messages:Heartbeat.write",
                "tlslite.tlsrecordlayer:TLSRecordLayer.write_heartbeat"],
            assumes=CONN_ASSUMES + [
                "heartbeat record with symbolic message type, payload and "
                "padding of the enumerated lengths, followed by application "
                "data; negotiated mode flags symbolic; getRandomBytes -> "
                "symbolic bytes"],
            patches=lambda s: (conn_proxies(), []), max_paths=4000)
def c16_3(I, shape):
    """heartbeat response echoes exactly the request payload; short padding
    is ignored; requests in the wrong mode are fatal"""
    import tlslite.messages as M
    version = tuple(shape["version"])
    plen, pad = shape["plen"], shape["pad"]
    mtype = I.byte("mtype")
    payload = I.bytes(plen, "payload")
    padding = I.bytes(pad, "padding")
    data = I.bytes(1, "data")
    hb = [mtype, plen >> 8, plen & 0xff] + list(payload) + list(padding)
    wire = record(ContentType.heartbeat, hb) + \
        record(ContentType.application_data, data)
    conn, sock = make_conn(version, True, wire)
    conn.heartbeat_supported = I.pick([True, False], "supported")
    conn.heartbeat_can_receive = I.pick([True, False], "can_receive")
    seen = []
    conn.heartbeat_response_callback = lambda m: seen.append(m)
    fresh = I.bytes(16, "rndpad")
    old = M.getRandomBytes
    M.getRandomBytes = lambda n: newbuf(list(fresh)[:n])
    try:
        try:
            got = _run(conn.readAsync(max=None, min=1))
            exc = None
        except (TLSAlert, TLSAbruptCloseError) as e:
            got, exc = None, e
        except Exception as e:
            I.fail("read raised undocumented %s" % type(e).__name__,
                   detail=repr(e))
            return
    finally:
        M.getRandomBytes = old
    sent = split_records(sock.out)
    is_req = mtype == HeartbeatMessageType.heartbeat_request
    if not conn.heartbeat_supported:
        I.check(isinstance(exc, TLSLocalAlert) and bool(
            exc.description == AlertDescription.unexpected_message),
            "heartbeat-not-negotiated-is-unexpected_message")
        return
    if exc is not None:
        I.check(isinstance(exc, TLSLocalAlert) and bool(is_req) and
                not conn.heartbeat_can_receive,
                "only-requests-in-peer_not_allowed_to_send-mode-are-fatal")
        return
    I.check(seq_eq(got, data), "heartbeat-not-delivered-as-data")
    if bool(is_req):
        I.check(conn.heartbeat_can_receive, "request-needs-permission")
        if pad < 16:
            I.check(sent == [], "short-padding-silently-ignored")
        else:
            I.check(len(sent) == 1 and sent[0][0] == ContentType.heartbeat,
                    "one-response")
            resp = list(sent[0][2])
            I.check(AND(resp[0] == HeartbeatMessageType.heartbeat_response,
                        resp[1] == plen >> 8, resp[2] == plen & 0xff,
                        seq_eq(resp[3:3 + plen], payload),
                        len(resp) == 3 + plen + 16),
                    "response-echoes-exactly-the-request-payload")
    else:
        I.check(sent == [], "nothing-sent-for-non-requests")
        if bool(mtype == HeartbeatMessageType.heartbeat_response):
            I.check(len(seen) == 1 and bool(seq_eq(seen[0].payload, payload)),
                    "response-handed-to-callback")


@obligation("C16.4", lambda tier: [dict(version=[3, 3]), dict(version=[3, 4])],
            functions=["tlslite.tlsrecordlayer:TLSRecordLayer.write_heartbeat",
                       "tlslite.tlsrecordlayer:TLSRecordLayer."
                       "send_keyupdate_request"],
            assumes=CONN_ASSUMES + ["mode flags symbolic"],
            patches=_rec_patches)
def c16_4(I, shape):
    """preconditions of locally initiated control messages"""
    version = tuple(shape["version"])
    conn, sock = make_conn(version, True)
    conn.heartbeat_supported = I.pick([True, False], "supported")
    conn.heartbeat_can_send = I.pick([True, False], "can_send")
    closed = I.pick([True, False], "closed")
    conn.closed = closed
    payload = I.bytes(2, "payload")
    import tlslite.messages as M
    old = M.getRandomBytes
    M.getRandomBytes = lambda n: newbuf([0] * n)
    try:
        try:
            _run(conn.write_heartbeat(payload, 16))
            ok = True
        except (TLSClosedConnectionError, TLSInternalError):
            ok = False
    finally:
        M.getRandomBytes = old
    I.check(ok == (not closed and conn.heartbeat_supported and
                   conn.heartbeat_can_send),
            "heartbeat-request-only-when-open-and-permitted")
    if ok:
        sent = split_records(sock.out)
        I.check(len(sent) == 1 and sent[0][0] == ContentType.heartbeat and
                bool(seq_eq(list(sent[0][2])[3:5], payload)),
                "heartbeat-request-on-the-wire")
    conn2, sock2 = make_conn(version, True)
    conn2.closed = closed
    try:
        _run(conn2.send_keyupdate_request(
            KeyUpdateMessageType.update_not_requested))
        ok = True
    except (TLSClosedConnectionError, TLSIllegalParameterException):
        ok = False
    I.check(ok == (not closed and version == (3, 4)),
            "key-update-only-in-open-tls13-connections")


# ---------------------------------------------------------------------------
# C16.5  post-handshake authentication requests are remembered until answered
# ---------------------------------------------------------------------------

@obligation("C16.5", lambda tier: [dict(n=n) for n in (1, 2, 3)],
            functions=["tlslite.tlsconnection:TLSConnection."
                       "request_post_handshake_auth"],
            assumes=CONN_ASSUMES + [
                "TLS 1.3 server whose client announced post_handshake_auth; "
                "n requests are issued before any answer is read; request "
                "contexts come from getRandomBytes = pairwise different "
                "concrete values (they are dictionary keys)"],
            patches=lambda s: (conn_proxies(), []))
def c16_5(I, shape):
    """every outstanding CertificateRequest context stays known to the
    server until it is answered, and preconditions are enforced"""
    import tlslite.tlsconnection as tcm
    n = shape["n"]
    conn, sock = make_conn((3, 4), False)
    conn._pha_supported = True
    # contexts are dictionary keys (hashed): concrete, pairwise different
    ctxs = [bytearray([0x40 + k]) * 32 for k in range(n)]
    I.cover("concrete contexts")
    it = iter(ctxs)
    old = tcm.getRandomBytes
    tcm.getRandomBytes = lambda k: newbuf(list(next(it)))
    old_bytes = tcm.__dict__.get("bytes")
    tcm.bytes = lambda x=b"": x if isinstance(x, SymBytes) else bytes(x)
    try:
        for _ in range(n):
            for r in conn.request_post_handshake_auth():
                pass
    finally:
        tcm.getRandomBytes = old
        if old_bytes is None:
            del tcm.bytes
        else:
            tcm.bytes = old_bytes
    I.check(len(conn._cert_requests) == n,
            "every-outstanding-request-is-remembered",
            detail=lambda: dict(remembered=len(conn._cert_requests), n=n))
    sent = split_records(sock.out)
    reqs = [r for r in sent if r[0] == ContentType.handshake and
            r[2][0] == HandshakeType.certificate_request]
    I.check(len(reqs) == n, "one-certificate-request-per-call")
    for k, r in enumerate(reqs):
        I.check(r[2][4] == 32 and list(r[2][5:37]) == list(ctxs[k]),
                "request-carries-its-context")
    # preconditions
    c2, _s = make_conn((3, 3), False)
    c2._pha_supported = True
    try:
        for r in c2.request_post_handshake_auth():
            pass
        I.fail("pha-requested-on-tls12")
    except ValueError:
        pass
    c3, _s = make_conn((3, 4), True)
    c3._pha_supported = True
    try:
        for r in c3.request_post_handshake_auth():
            pass
        I.fail("pha-requested-by-client")
    except ValueError:
        pass
    c4, _s = make_conn((3, 4), False)
    c4._pha_supported = False
    try:
        for r in c4.request_post_handshake_auth():
            pass
        I.fail("pha-requested-without-client-support")
    except ValueError:
        pass


# ---------------------------------------------------------------------------
# C16.6  heartbeat is answered exactly when both sides enabled it (live pair)
# ---------------------------------------------------------------------------
from models import pair as P
from obl.C05 import PAIR_RND5, _pair_patches5
from tlslite.messages import Heartbeat
from tlslite.constants import HeartbeatMessageType
from tlslite.errors import BaseTLSException
from symx.core import PathAbort, Unsupported


def _shapes_c16_6(tier):
    out = []
    for ver in ("tls13", "tls12", "tls10"):
        for hb in ("both", "server-declines", "client-declines"):
            for sender in ("client", "server"):
                out.append(dict(ver=ver, heartbeat=hb, sender=sender))
    return out


@obligation("C16.6", _shapes_c16_6,
            functions=["tlslite.tlsconnection:TLSConnection."
                       "_serverGetClientHello",
                       "tlslite.tlsconnection:TLSConnection."
                       "_clientGetServerHello",
                       "tlslite.tlsconnection:TLSConnection."
                       "_clientTLS13Handshake",
                       "tlslite.tlsconnection:TLSConnection."
                       "_serverTLS13Handshake",
                       "tlslite.tlsrecordlayer:TLSRecordLayer._getMsg",
                       "tlslite.messages:Heartbeat.parse"],
            assumes=P.PAIR_ASSUMES + [
                "two live endpoints, TLS 1.3 / 1.2 / 1.0; "
                "use_heartbeat_extension per side and shape; after the "
                "handshake one side sends a HeartbeatRequest with a symbolic "
                "5-byte payload and 16 bytes of padding"],
            patches=_pair_patches5, max_paths=200, timeout=(600, 1800),
            also=("C03",))
def c16_6(I, shape):
    """heartbeat is in use exactly when both sides enabled it: then a request
    is answered with its payload; otherwise the receiver of a request aborts
    with unexpected_message and both sides hold 'not supported'"""
    ver, hb = shape["ver"], shape["heartbeat"]
    if ver == "tls13":
        cset, sset = P.settings13(), P.settings13()
    elif ver == "tls12":
        cset, sset = P.settings12(), P.settings12()
    else:
        cset = P.settings12((3, 1), "ecdhe_rsa", "aes128", "sha")
        sset = P.settings12((3, 1), "ecdhe_rsa", "aes128", "sha")
    cset.use_heartbeat_extension = hb != "client-declines"
    sset.use_heartbeat_extension = hb != "server-declines"
    sc = P.Scenario(I, PAIR_RND5, cset, sset, server_cred="rsa")
    sc.run()
    I.check(sc.both_completed(), "handshake-completes",
            detail=lambda: dict(c=repr(sc.cep.error), s=repr(sc.sep.error),
                                crash=sc.cep.crash or sc.sep.crash))
    if not sc.both_completed():
        return
    c, s = sc.c, sc.s
    want = hb == "both"
    I.check(c.heartbeat_supported == want and s.heartbeat_supported == want,
            "heartbeat-supported-iff-both-sides-enabled-it",
            detail=lambda: dict(c=c.heartbeat_supported,
                                s=s.heartbeat_supported))
    snd, rcv = (c, s) if shape["sender"] == "client" else (s, c)
    payload = I.bytes(5, "payload")
    req = Heartbeat().create(HeartbeatMessageType.heartbeat_request,
                             newbuf(list(payload)), 16)
    nbefore = len(sc.wire.log)
    for r in snd._sendMsg(req):
        pass
    err = None
    try:
        for r in rcv.readAsync(max=1, min=0):
            if r in (0, 1) and isinstance(r, int):
                break
    except BaseTLSException as e:
        err = e
    except (PathAbort, Unsupported):
        raise
    except Exception as e:
        I.fail("heartbeat processing raised %s" % type(e).__name__,
               detail=repr(e)[:200])
        return
    sent = [d for who, d in sc.wire.log[nbefore + 1:]]
    if want:
        I.check(err is None, "negotiated-heartbeat-request-is-accepted",
                detail=lambda: dict(err=repr(err)))
        # the answer is on the wire: read it on the sender's side as a record
        got = None
        for got in snd._recordLayer.recvRecord():
            if got not in (0, 1):
                break
        hdr, parser = got
        I.check(hdr.type == ContentType.heartbeat,
                "a-heartbeat-record-comes-back")
        body = list(parser.bytes)
        I.check(len(body) >= 8 and
                bool(body[0] == HeartbeatMessageType.heartbeat_response) and
                bool(seq_eq(body[3:8], list(payload))),
                "response-echoes-the-request-payload")
    else:
        I.check(isinstance(err, TLSLocalAlert) and
                err.description == AlertDescription.unexpected_message,
                "heartbeat-that-was-not-negotiated-is-unexpected_message",
                detail=lambda: dict(err=repr(err)))
        I.check(rcv.closed, "connection-closed")
