"""C03 - both ends agree on everything, within both policies (decision code of
the hello processing; C20.2 covers the suite filters)."""
from lib.framework import obligation
from symx.core import (SymInt, SymBool, SymBytes, AND, OR, NOT, IFF, IMPLIES,
                       seq_eq, assume, is_concrete_mode, ite, PathAbort,
                       Unsupported)
from models.fixtures import newbuf
from models.conn import record, split_records
from models.hello import (hello_proxies, hello_stubs, HELLO_ASSUMES,
                          server_conn, run_server_hello, ch_bytes,
                          std_extensions, raw_ext, settings_family, Cut,
                          RSA_CHAIN, RSA_KEY, EC_CHAIN, EC_KEY)

import tlslite.tlsconnection as tc
import tlslite.extensions as X
from tlslite.constants import (ContentType, HandshakeType, ExtensionType,
                               CipherSuite, GroupName, AlertDescription,
                               AlertLevel)
from tlslite.handshakesettings import HandshakeSettings

SRV_FUNCS = ["tlslite.tlsconnection:TLSConnection._serverGetClientHello",
             "tlslite.tlsconnection:TLSConnection._server_select_certificate",
             "tlslite.tlsconnection:TLSConnection._pickServerKeyExchangeSig",
             "tlslite.tlsconnection:TLSConnection._sigHashesToList",
             "tlslite.tlsconnection:TLSConnection._curveNamesToList",
             "tlslite.tlsconnection:TLSConnection._groupNamesToList",
             "tlslite.tlsrecordlayer:TLSRecordLayer._getMsg",
             "tlslite.tlsrecordlayer:TLSRecordLayer._sendError",
             "tlslite.messages:ClientHello.parse",
             "tlslite.constants:CipherSuite._filterSuites",
             "tlslite.constants:CipherSuite.filterForVersion",
             "tlslite.constants:CipherSuite.filter_for_certificate"]

FAMILY = None


def family():
    global FAMILY
    if FAMILY is None:
        FAMILY = settings_family()
    return FAMILY


def _shapes_c03_2(tier):
    out = []
    for name in sorted(settings_family()):
        for cred in ("rsa", "ecdsa"):
            for sv in (True, False):
                out.append(dict(settings=name, cred=cred, supported_versions=sv))
    return out


def suite_ok_for(cs, settings, version, chain):
    """oracle: admitted by the settings filter, by the version and by the
    certificate (the filters themselves are C20.2's subject)"""
    f = CipherSuite._filterSuites([cs], settings, version)
    f = CipherSuite.filterForVersion(f, version, version)
    f = CipherSuite.filter_for_certificate(f, chain)
    return f == [cs]


@obligation("C03.2", _shapes_c03_2, functions=SRV_FUNCS,
            assumes=HELLO_ASSUMES + [
                "ClientHello: legacy version (3, symbolic minor), two "
                "symbolic cipher-suite ids plus symbolic presence of "
                "FALLBACK_SCSV, optional supported_versions with two "
                "entries of symbolic minor, fixed groups/key_share/"
                "signature_algorithms; server settings from a fixed family "
                "of validated HandshakeSettings; RSA or ECDSA credentials"],
            patches=lambda s: (hello_proxies(), hello_stubs()),
            max_paths=20000, timeout=(400, 1500), also=("C04", "C19", "C20"))
def c03_2(I, shape):
    """whatever the server selects lies inside its own settings and inside
    what the client offered; otherwise it answers with an alert"""
    settings = family()[shape["settings"]]
    chain, key = (RSA_CHAIN, RSA_KEY) if shape["cred"] == "rsa" \
        else (EC_CHAIN, EC_KEY)
    minor = I.int_range(0, 4, "legacy_minor")
    s1 = I.uint(16, "suite1")
    s2 = I.uint(16, "suite2")
    suites = [s1, s2]
    fallback = I.pick([False, True], "fallback_scsv")
    if fallback:
        suites.append(CipherSuite.TLS_FALLBACK_SCSV)
    use_sv = shape["supported_versions"]
    if use_sv:
        v1 = I.int_range(0, 5, "sv1")
        v2 = I.int_range(0, 5, "sv2")
        offered = [(3, v1), (3, v2)]
        exts = std_extensions(True, versions=offered)
    else:
        offered = None
        exts = std_extensions(False)
    wire = record(ContentType.handshake, ch_bytes((3, minor), suites, exts))
    conn = server_conn(wire)
    out = run_server_hello(conn, settings, chain, key)
    if out["kind"] == "alert":
        sent = out["sent"]
        I.check(len(sent) >= 1 and sent[-1][0] == ContentType.alert and
                bool(sent[-1][2][0] == AlertLevel.fatal),
                "fatal-alert-on-the-wire")
        return
    if out["kind"] != "ret":
        I.cover(out["kind"])
        return
    clientHello, version, cs, sig_scheme, pk, cc = out["result"]
    k = int(cs)
    # --- server policy ---
    I.check(settings.minVersion <= version <= settings.maxVersion,
            "version-inside-server-settings",
            detail=lambda: dict(version=version, min=settings.minVersion,
                                max=settings.maxVersion))
    I.check(suite_ok_for(k, settings, version, cc),
            "suite-inside-server-settings-version-and-certificate",
            detail=lambda: dict(suite=hex(k), version=version))
    # --- client offer ---
    I.check(OR(s1 == k, s2 == k), "suite-was-offered-by-the-client")
    if offered is not None:
        # RFC 8446 4.2.1: with supported_versions present the legacy version
        # is not used for negotiation
        I.check(OR([version[1] == v[1] for v in offered]),
                "version-was-offered-in-supported_versions")
    else:
        I.check(version[1] <= minor, "version-not-above-client-legacy-version")
    if fallback:
        I.check(version == settings.maxVersion,
                "fallback-scsv-accepted-only-at-the-servers-best-version")
    if sig_scheme is not None and version >= (3, 3):
        # the scheme is one the client listed (fixed list above)
        I.check(sig_scheme in ("sha256", "rsa_pss_rsae_sha256",
                               "ecdsa_secp256r1_sha256", "sha1"),
                "signature-scheme-was-offered",
                detail=lambda: dict(sig_scheme=sig_scheme))


# ---------------------------------------------------------------------------
# C03.3 / C04.5  client: accepts only what it offered; downgrade sentinel
# ---------------------------------------------------------------------------
from models.hello import client_conn, run_client_hello, sh_bytes
import tlslite.extensions as _X
from tlslite.constants import (TLS_1_1_DOWNGRADE_SENTINEL,
                               TLS_1_2_DOWNGRADE_SENTINEL)

CLI_FUNCS = ["tlslite.tlsconnection:TLSConnection._handshakeClientAsyncHelper",
             "tlslite.tlsconnection:TLSConnection._clientSendClientHello",
             "tlslite.tlsconnection:TLSConnection._clientGetServerHello",
             "tlslite.tlsrecordlayer:TLSRecordLayer._getMsg",
             "tlslite.messages:ServerHello.parse",
             "tlslite.constants:CipherSuite.filterForVersion"]


def _cli_settings():
    fam = {}
    for lo, hi in (((3, 1), (3, 4)), ((3, 1), (3, 3)), ((3, 1), (3, 1)),
                   ((3, 3), (3, 3)), ((3, 3), (3, 4)), ((3, 4), (3, 4)),
                   ((3, 1), (3, 2))):
        s = HandshakeSettings()
        s.minVersion, s.maxVersion = lo, hi
        s.keyShares = ["secp256r1"]
        fam["v%d%d-%d%d" % (lo + hi)] = s
    s = HandshakeSettings()
    s.requireExtendedMasterSecret = True
    s.keyShares = ["secp256r1"]
    s.maxVersion = (3, 3)
    fam["require-ems"] = s
    return fam


def _shapes_c03_3(tier):
    out = []
    for name in sorted(_cli_settings()):
        for sv in (True, False):
            out.append(dict(settings=name, supported_versions=sv))
    return out


@obligation("C03.3", _shapes_c03_3, functions=CLI_FUNCS,
            assumes=HELLO_ASSUMES + [
                "the ClientHello is built natively by the real "
                "_clientSendClientHello for each settings family member "
                "(anonymous + certificate suites); ServerHello: symbolic "
                "legacy minor version, optional supported_versions with "
                "symbolic minor, symbolic cipher suite, compression byte, "
                "last 8 bytes of the random, EMS extension presence; "
                "session_id echoed or not (symbolic choice)"],
            patches=lambda s: (hello_proxies(), hello_stubs()),
            max_paths=20000, timeout=(400, 1500), also=("C04",))
def c03_3(I, shape):
    """the client goes on only with a version inside its settings, a suite
    it offered that the version defines, null compression, and never past a
    downgrade sentinel"""
    settings = _cli_settings()[shape["settings"]]
    vsettings = settings.validate()
    minor = I.int_range(0, 4, "sh_minor")
    suite = I.uint(16, "suite")
    comp = I.byte("compression")
    tail = I.bytes(8, "random_tail")
    echo = I.pick([True, False], "echo_session_id")
    ems = I.pick([True, False], "ems")
    sv_minor = I.int_range(0, 5, "sv_minor") if shape["supported_versions"] \
        else None

    def server_wire(ch):
        exts = []
        if sv_minor is not None:
            exts.append(_X.SrvSupportedVersionsExtension().create(
                (3, sv_minor)))
            exts.append(_X.ServerKeyShareExtension().create(
                _X.KeyShareEntry().create(GroupName.secp256r1,
                                          bytearray(b"\x04" + b"\x02" * 64))))
        if ems:
            exts.append(raw_ext(ExtensionType.extended_master_secret, []))
        sid = ch.session_id if echo else bytearray(b"other-session-id")
        rnd = newbuf([9] * 24 + list(tail))
        return record(ContentType.handshake,
                      sh_bytes((3, minor), rnd, sid, suite, exts or None,
                               comp))
    conn = client_conn()
    out = run_client_hello(conn, settings, server_wire)
    ch = out["clientHello"]
    if out["kind"] in ("alert", "remote-alert"):
        I.cover(out["kind"])
        return
    # the handshake goes on
    version = conn.version
    I.check(vsettings.minVersion <= version <= vsettings.maxVersion,
            "negotiated-version-inside-client-settings",
            detail=lambda: dict(version=version,
                                min=vsettings.minVersion,
                                max=vsettings.maxVersion))
    k = int(suite)
    I.check(k in ch.cipher_suites, "suite-was-offered")
    I.check(CipherSuite.filterForVersion([k], version, version) == [k],
            "suite-defined-for-the-version")
    I.check(comp == 0, "null-compression")
    if version > (3, 3):
        I.check(echo, "tls13-session-id-echoed")
        I.check(out["kind"] == "tls13", "tls13-flow-entered")
    else:
        I.check(out["kind"] == "tls12-continues", "tls12-flow-entered")
    if shape["settings"] == "require-ems":
        I.check(ems, "ems-required-and-present")
    # RFC 8446 4.1.3 downgrade protection
    t = list(tail)
    is12 = seq_eq(t, list(TLS_1_2_DOWNGRADE_SENTINEL))
    is11 = seq_eq(t, list(TLS_1_1_DOWNGRADE_SENTINEL))
    if vsettings.maxVersion > (3, 3) and version <= (3, 3):
        I.check(NOT(OR(is12, is11)),
                "tls13-client-rejects-downgrade-sentinels")
    if vsettings.maxVersion == (3, 3) and version < (3, 3):
        I.check(NOT(is11), "tls12-client-rejects-tls11-sentinel")


# ---------------------------------------------------------------------------
# C03.4  the server does not refuse an offer it is compatible with
# ---------------------------------------------------------------------------

def _shapes_c03_4(tier):
    out = []
    for cred in ("rsa", "ecdsa"):
        for groups in ("x25519", "secp256r1", "secp384r1", "x25519+secp256r1"):
            for tls13 in (True, False):
                out.append(dict(cred=cred, groups=groups, tls13=tls13))
    return out


@obligation("C03.4", _shapes_c03_4, functions=SRV_FUNCS,
            assumes=HELLO_ASSUMES + [
                "ClientHello offering TLS 1.3 (or TLS 1.2 only) with the "
                "enumerated supported_groups/key_share and signature "
                "algorithms for both RSA and ECDSA P-256; default server "
                "settings; compatibility oracle written from RFC 8446 4.2.7 "
                "(groups constrain the key exchange only) and RFC 8422 5.1.1 "
                "(TLS <= 1.2: the certificate's curve must be among the "
                "client's groups)"],
            patches=lambda s: (hello_proxies(), hello_stubs()),
            max_paths=4000, also=("C19",))
def c03_4(I, shape):
    """compatible offers are answered with a selection, not an alert"""
    chain, key = (RSA_CHAIN, RSA_KEY) if shape["cred"] == "rsa" \
        else (EC_CHAIN, EC_KEY)
    gmap = {"x25519": GroupName.x25519, "secp256r1": GroupName.secp256r1,
            "secp384r1": GroupName.secp384r1}
    groups = [gmap[g] for g in shape["groups"].split("+")]
    sigalgs = [(8, 4), (4, 1), (4, 3), (5, 3)]
    exts = std_extensions(shape["tls13"], groups=groups, sigalgs=sigalgs,
                          key_share_groups=groups[:1])
    suites = [CipherSuite.TLS_AES_128_GCM_SHA256,
              CipherSuite.TLS_ECDHE_RSA_WITH_AES_128_GCM_SHA256,
              CipherSuite.TLS_ECDHE_ECDSA_WITH_AES_128_GCM_SHA256]
    rnd = I.bytes(32, "client_random")
    wire = record(ContentType.handshake,
                  ch_bytes((3, 3), suites, exts, random=newbuf(list(rnd))))
    conn = server_conn(wire)
    settings = family()["default"]
    out = run_server_hello(conn, settings, chain, key)
    if shape["tls13"]:
        compatible = True
    else:
        # TLS 1.2 ECDHE: a common curve is needed; for an ECDSA certificate
        # its own curve (P-256) must be supported by the client
        compatible = shape["cred"] == "rsa" or \
            GroupName.secp256r1 in groups
    if compatible:
        I.check(out["kind"] == "ret", "compatible-offer-is-not-refused",
                detail=lambda: dict(kind=out["kind"],
                                    alert=str(out.get("alert"))))
        if out["kind"] == "ret":
            version = out["result"][1]
            I.check(version == ((3, 4) if shape["tls13"] else (3, 3)),
                    "highest-common-version-selected")
    else:
        I.check(out["kind"] == "alert", "incompatible-offer-gets-an-alert")


# ---------------------------------------------------------------------------
# C03.5  record size limits after Finished (TLS <= 1.2)
# ---------------------------------------------------------------------------

@obligation("C03.5", lambda tier: [dict(client=c) for c in (True, False)],
            functions=["tlslite.tlsconnection:TLSConnection._sendFinished"],
            assumes=["_sendFinished is run on a real connection with the "
                     "peer's advertised record_size_limit and the own "
                     "setting as symbolic integers (64..2^14+1); calc_key "
                     "and the cipher state change are stubs"],
            patches=lambda s: (hello_proxies(), hello_stubs() + [
                (tc, "calc_key", lambda *a, **k: bytearray(12))]),
            also=("C01",))
def c03_5(I, shape):
    """after the handshake each side sends at most what the PEER advertised
    and accepts what IT advertised itself (RFC 8449): the two limits are
    independent"""
    from models.conn import make_conn
    peer = I.int_range(64, 2 ** 14, "peer_limit")
    own = I.int_range(64, 2 ** 14 + 1, "own_limit")
    conn, sock = make_conn((3, 3), shape["client"], session=False)
    conn._changeWriteState = lambda: None
    conn._peer_record_size_limit = peer

    class S(object):
        record_size_limit = own
    for r in conn._sendFinished(bytearray(48), 0x2f, None, settings=S()):
        pass
    I.check(conn._send_record_limit == peer,
            "send-limit-is-what-the-peer-advertised")
    I.check(conn._recv_record_limit == ite(own < 2 ** 14, own, 2 ** 14),
            "receive-limit-is-the-own-setting-capped-at-2^14")
