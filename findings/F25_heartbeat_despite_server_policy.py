"""F25: a server with settings.use_heartbeat_extension = False does not send
the heartbeat extension, yet marks heartbeat as supported on its side as soon
as the client offered it, and answers HeartbeatRequests.  RFC 6520 section 2:
a peer that did not send the extension must not be sent / answer heartbeat
messages; C03: a negotiated feature must lie inside both settings; C16: a
heartbeat on a connection that did not negotiate it is unexpected_message.

usage: VERIF_REPO=<tree> /venv/bin/python findings/F25_heartbeat_despite_server_policy.py
exit 1 = defect present, 0 = absent
"""
import os
import socket
import sys
import threading

REPO = os.environ.get("VERIF_REPO", "/repo")
sys.path.insert(0, REPO)
from tlslite.api import (TLSConnection, HandshakeSettings, X509,  # noqa: E402
                         X509CertChain, parsePEMKey)
from tlslite.messages import Heartbeat                        # noqa: E402
from tlslite.constants import HeartbeatMessageType            # noqa: E402
from tlslite.errors import TLSAlert                           # noqa: E402

T = os.path.join(REPO, "tests")
c = X509()
c.parse(open(os.path.join(T, "serverX509Cert.pem")).read())
chain = X509CertChain([c])
key = parsePEMKey(open(os.path.join(T, "serverX509Key.pem")).read(),
                  private=True)
bad = False
for version in ((3, 3), (3, 4)):
    a, b = socket.socketpair()
    res = {}

    def server():
        s = TLSConnection(b)
        st = HandshakeSettings()
        st.minVersion = st.maxVersion = version
        st.use_heartbeat_extension = False
        s.handshakeServer(certChain=chain, privateKey=key, settings=st)
        res["flag"] = s.heartbeat_supported
        try:
            res["read"] = s.read(max=4, min=4)
        except TLSAlert as e:
            res["read"] = "alert " + str(e)
        finally:
            b.close()
    th = threading.Thread(target=server)
    th.start()
    cl = TLSConnection(a)
    st = HandshakeSettings()
    st.minVersion = st.maxVersion = version
    cl.handshakeClientCert(settings=st)
    hb = Heartbeat().create(HeartbeatMessageType.heartbeat_request,
                            bytearray(b"probe"), 16)
    for _ in cl._sendMsg(hb):
        pass
    cl.sock.settimeout(3)
    try:
        # what does the server put on the wire?  decrypt the next record with
        # the client's record layer
        got = None
        for got in cl._recordLayer.recvRecord():
            if got not in (0, 1):
                break
        hdr, parser = got
        kind = {24: "a HeartbeatResponse", 21: "an alert",
                23: "application data"}.get(hdr.type, "type %d" % hdr.type)
        if hdr.type == 21:
            kind += " %r" % list(parser.bytes)
    except Exception as e:
        kind = type(e).__name__
    try:
        cl.write(b"done")
    except (OSError, TLSAlert):
        pass
    th.join(5)
    a.close()
    print("TLS %s: client offered=%s server heartbeat_supported=%s, server "
          "answered the request with: %s"
          % (version, True, res.get("flag"), kind))
    if res.get("flag") or kind == "a HeartbeatResponse":
        bad = True
print("DEFECT PRESENT" if bad else "no defect")
sys.exit(1 if bad else 0)
