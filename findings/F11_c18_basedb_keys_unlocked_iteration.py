"""F11 (C18): BaseDB.keys() takes the dict's key *view* under the lock but
iterates it after releasing the lock; with the in-memory back end a writer in
another thread can change the dict in between: RuntimeError 'dictionary
changed size during iteration'.  Deterministic demonstration: the writer runs
at the lock release of keys().  Exit 1 if present."""
import sys
sys.path.insert(0, "/repo")
from tlslite.verifierdb import VerifierDB

db = VerifierDB()
db.create()
entry = (2 ** 1024 + 7, 2, bytearray(b"salt0123"), 123456789)
fired = []


class Key(str):
    """a user name whose startswith() is the preemption point: the 'other
    thread' stores a new user while keys() is filtering its result"""
    def startswith(self, prefix):
        if not fired:
            fired.append(1)
            db["carol"] = entry
        return str.startswith(self, prefix)


db[Key("alice")] = entry
db[Key("bob")] = entry
try:
    print(sorted(db.keys()))
    sys.exit(0)
except RuntimeError as e:
    print("RuntimeError:", e)
    sys.exit(1)
