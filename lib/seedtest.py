"""Confirm and evaluate seeded defects.

  lib/seedtest.py confirm <src-dir> <prop> <name>   # verify in a scratch worktree and store under seeded/
  lib/seedtest.py run [<prop>[/<name>]] [--tier quick] [--checks C01,C02]

confirm: (1) patch applies to /repo's HEAD in a scratch worktree, (2) the
repository's test suite still passes with it, (3) the demonstration exits 1
with the patch and 0 without.  Only then is it stored as
seeded/<prop>/<name>/{patch.diff,demo.py,notes.md,meta.json}.

run: applies each stored patch to /repo's working tree, runs the property's
check, records whether a VIOLATION was reported, and restores /repo.
"""
import json
import os
import shutil
import subprocess
import sys
import time

VERIF = os.path.dirname(os.path.dirname(os.path.abspath(__file__)))
SEEDED = os.path.join(VERIF, "seeded")
SCRATCH = "/tmp/wt/_verify"
PY = "/venv/bin/python"
TESTCMD = [PY, "-m", "pytest", "-q", "-p", "no:cacheprovider",
           "--timeout=900", "unit_tests"]


def sh(cmd, cwd=None, timeout=3600):
    p = subprocess.run(cmd, cwd=cwd, stdout=subprocess.PIPE,
                       stderr=subprocess.STDOUT, timeout=timeout, text=True)
    return p.returncode, p.stdout


def scratch():
    if os.path.isdir(SCRATCH):
        sh(["git", "-C", "/repo", "worktree", "remove", "--force", SCRATCH])
        shutil.rmtree(SCRATCH, ignore_errors=True)
    rc, out = sh(["git", "-C", "/repo", "worktree", "add", "-q", "--detach",
                  SCRATCH, "HEAD"])
    if rc:
        raise SystemExit("cannot create scratch worktree: " + out)


def drop_scratch():
    sh(["git", "-C", "/repo", "worktree", "remove", "--force", SCRATCH])
    shutil.rmtree(SCRATCH, ignore_errors=True)


def confirm(src, prop, name):
    patch = os.path.join(src, "patch.diff")
    demo = os.path.join(src, "demo.py")
    meta = dict(property=prop, name=name, confirmed=False,
                repo_head=sh(["git", "-C", "/repo", "rev-parse", "HEAD"])[1]
                .strip(), ran=[])
    scratch()
    try:
        rc, out = sh(["git", "apply", "--3way", patch], cwd=SCRATCH)
        if rc:
            rc, out = sh(["git", "apply", patch], cwd=SCRATCH)
        if rc:
            print("patch does not apply:", out)
            return False
        # store the patch as it applies to the current HEAD
        rc, diff = sh(["git", "diff", "HEAD"], cwd=SCRATCH)
        rc, out = sh(TESTCMD, cwd=SCRATCH)
        tail = out.strip().splitlines()[-1] if out.strip() else ""
        meta["ran"].append("pytest unit_tests with patch: " + tail)
        if rc != 0 or " failed" in (" " + tail):
            print("test suite fails with the patch:", tail)
            return False
        shutil.copy(demo, os.path.join(SCRATCH, "demo.py"))
        rc1, out1 = sh([PY, "demo.py"], cwd=SCRATCH, timeout=600)
        meta["ran"].append("demo.py with patch: exit %d" % rc1)
        sh(["git", "checkout", "--", "."], cwd=SCRATCH)
        sh(["git", "reset", "-q", "--hard", "HEAD"], cwd=SCRATCH)
        rc0, out0 = sh([PY, "demo.py"], cwd=SCRATCH, timeout=600)
        meta["ran"].append("demo.py without patch: exit %d" % rc0)
        if rc1 != 1 or rc0 != 0:
            print("demo does not discriminate: with=%d without=%d" %
                  (rc1, rc0))
            print(out1[-800:])
            print(out0[-800:])
            return False
        meta["confirmed"] = True
        meta["demo_output_with_patch"] = out1[-1200:]
    finally:
        drop_scratch()
    dst = os.path.join(SEEDED, prop, name)
    os.makedirs(dst, exist_ok=True)
    with open(os.path.join(dst, "patch.diff"), "w") as f:
        f.write(diff)
    shutil.copy(demo, os.path.join(dst, "demo.py"))
    notes = os.path.join(src, "notes.md")
    if os.path.exists(notes):
        shutil.copy(notes, os.path.join(dst, "notes.md"))
        with open(notes) as f:
            meta["needs"] = f.read()[:1500]
    with open(os.path.join(dst, "meta.json"), "w") as f:
        json.dump(meta, f, indent=1)
    print("confirmed and stored:", dst)
    return True


def run(sel=None, tier="quick", checks=None):
    results = []
    for prop in sorted(os.listdir(SEEDED)):
        pd = os.path.join(SEEDED, prop)
        if not os.path.isdir(pd):
            continue
        for name in sorted(os.listdir(pd)):
            key = "%s/%s" % (prop, name)
            if sel and not (key == sel or prop == sel):
                continue
            d = os.path.join(pd, name)
            patch = os.path.join(d, "patch.diff")
            if not os.path.exists(patch):
                continue
            rc, out = sh(["git", "status", "--porcelain",
                          "--untracked-files=no"], cwd="/repo")
            if out.strip():
                raise SystemExit("/repo not clean")
            rc, out = sh(["git", "apply", patch], cwd="/repo")
            if rc:
                print(key, "patch no longer applies:", out[:200])
                results.append((key, None, "no-apply"))
                continue
            try:
                for chk in (checks or [prop]):
                    t0 = time.time()
                    rc, out = sh([os.path.join(VERIF, "check"), chk,
                                  "--tier", tier], cwd=VERIF, timeout=7200)
                    detected = rc == 1 and "VIOLATION property=%s" % chk in out
                    lab = [ln.strip() for ln in out.splitlines()
                           if ln.strip().startswith("obligation=")][:2]
                    print("%-12s check=%s exit=%d %s %.0fs %s" % (
                        key, chk, rc, "DETECTED" if detected else
                        ("inconclusive" if rc == 2 else "missed"),
                        time.time() - t0, lab), flush=True)
                    results.append((key, chk, rc))
                    _record(key, chk, tier, rc, detected, lab)
            finally:
                sh(["git", "checkout", "--", "."], cwd="/repo")
    return results


RESULTS = os.path.join(SEEDED, "RESULTS.json")


def _record(key, chk, tier, rc, detected, labels):
    """remember the latest outcome per (seed, check, tier)"""
    try:
        with open(RESULTS) as f:
            db = json.load(f)
    except Exception:
        db = {}
    obl = []
    for ln in labels:
        # "obligation=C01.1 label='...' shape=..."
        parts = ln.split()
        o = parts[0].split("=", 1)[1] if parts else "?"
        lab = ln.split("label=", 1)[1].split(" shape=")[0] if "label=" in ln \
            else ""
        obl.append("%s %s" % (o, lab.strip("'\"")))
    db["%s|%s|%s" % (key, chk, tier)] = dict(
        seed=key, check=chk, tier=tier, exit=rc, detected=bool(detected),
        by=obl, repo_head=sh(["git", "-C", "/repo", "rev-parse", "--short",
                              "HEAD"])[1].strip())
    with open(RESULTS, "w") as f:
        json.dump(db, f, indent=1, sort_keys=True)


if __name__ == "__main__":
    if sys.argv[1] == "confirm":
        ok = confirm(sys.argv[2], sys.argv[3], sys.argv[4])
        sys.exit(0 if ok else 1)
    elif sys.argv[1] == "run":
        args = sys.argv[2:]
        tier = "quick"
        checks = None
        sel = None
        while args:
            a = args.pop(0)
            if a == "--tier":
                tier = args.pop(0)
            elif a == "--checks":
                checks = args.pop(0).split(",")
            else:
                sel = a
        run(sel, tier, checks)
