"""Table of codec targets: every message / extension class with the
constructor arguments the library itself uses when it parses peer input."""
from tlslite import messages as M
from tlslite import extensions as X
from tlslite.constants import (CipherSuite, CertificateType, ContentType,
                               HandshakeType, ExtensionType)
from tlslite.utils.codec import Parser

CS = CipherSuite

# name -> (factory, framing, lengths-quick, lengths-thorough)
#   framing 'hs'  : handshake message; parse() input = 3-byte length + body,
#                   write() = type byte + input
#   framing 'raw' : parse() consumes the whole buffer, write() == input
HS = {}
RAW = {}


def _hs(name, factory, quick, thorough=None, **kw):
    HS[name] = dict(factory=factory, quick=list(quick),
                    thorough=list(thorough or quick), **kw)


def _raw(name, factory, quick, thorough=None, **kw):
    RAW[name] = dict(factory=factory, quick=list(quick),
                     thorough=list(thorough or quick), **kw)


# lengths are the total number of symbolic bytes handed to parse()
_hs("ClientHello", lambda: M.ClientHello(),
    [3 + 34 + 1 + 2 + 1 + k for k in (0, 2, 3, 8)],
    # 12 and more free bytes after the fixed part exceed the path budget
    [3 + 34 + 1 + 2 + 1 + k for k in range(0, 12)], fixed_prefix=0)
_hs("ServerHello", lambda: M.ServerHello(),
    [3 + 34 + 1 + 2 + 1 + k for k in (0, 2, 6, 8)],
    [3 + 34 + 1 + 2 + 1 + k for k in range(0, 13)])
_hs("Certificate12", lambda: M.Certificate(CertificateType.x509, (3, 3)),
    [3, 6, 9, 12], range(3, 20))
_hs("Certificate13", lambda: M.Certificate(CertificateType.x509, (3, 4)),
    [3, 7, 12, 14], range(3, 22))
_hs("CertificateRequest10", lambda: M.CertificateRequest((3, 1)),
    [3, 6, 10, 12], range(3, 20))
_hs("CertificateRequest12", lambda: M.CertificateRequest((3, 3)),
    [3, 8, 12, 14], range(3, 22))
_hs("CertificateRequest13", lambda: M.CertificateRequest((3, 4)),
    [3, 6, 12, 13], range(3, 17))
_hs("CertificateVerify10", lambda: M.CertificateVerify((3, 1)),
    [3, 5, 9], range(3, 16))
_hs("CertificateVerify12", lambda: M.CertificateVerify((3, 3)),
    [3, 7, 11], range(3, 16))
_hs("CertificateVerify13", lambda: M.CertificateVerify((3, 4)),
    [3, 7, 11], range(3, 16))
_hs("ServerKeyExchange_DHE12",
    lambda: M.ServerKeyExchange(CS.TLS_DHE_RSA_WITH_AES_128_CBC_SHA, (3, 3)),
    [3, 9, 14, 17], range(3, 24))
_hs("ServerKeyExchange_DHE10",
    lambda: M.ServerKeyExchange(CS.TLS_DHE_RSA_WITH_AES_128_CBC_SHA, (3, 1)),
    [3, 9, 14], range(3, 22))
_hs("ServerKeyExchange_ECDHE12",
    lambda: M.ServerKeyExchange(CS.TLS_ECDHE_RSA_WITH_AES_128_CBC_SHA,
                                (3, 3)),
    [3, 7, 10, 15], range(3, 22))
_hs("ServerKeyExchange_SRP",
    lambda: M.ServerKeyExchange(CS.TLS_SRP_SHA_WITH_AES_128_CBC_SHA, (3, 3)),
    [3, 10, 14], range(3, 22))
_hs("ServerKeyExchange_SRP_RSA",
    lambda: M.ServerKeyExchange(CS.TLS_SRP_SHA_RSA_WITH_AES_128_CBC_SHA,
                                (3, 3)),
    [3, 14, 17], range(3, 24))
_hs("ServerKeyExchange_DHanon",
    lambda: M.ServerKeyExchange(CS.TLS_DH_ANON_WITH_AES_128_CBC_SHA, (3, 3)),
    [3, 9, 12], range(3, 20))
_hs("ServerKeyExchange_ECDHanon",
    lambda: M.ServerKeyExchange(CS.TLS_ECDH_ANON_WITH_AES_128_CBC_SHA,
                                (3, 3)),
    [3, 7, 10], range(3, 18))
_hs("ServerHelloDone", lambda: M.ServerHelloDone(), [3, 4], range(3, 8))
_hs("HelloRequest", lambda: M.HelloRequest(), [3, 4], range(3, 8))
NORMALISING = {
    # integers carried as opaque byte strings lose leading zero bytes
    "ClientKeyExchange_DHE": "DH public value is an integer: leading zero "
                             "bytes are not preserved",
    "ClientKeyExchange_SRP": "SRP A is an integer: leading zero bytes are "
                             "not preserved",
    "NextProtocol": "padding is recomputed by write(), the received padding "
                    "is not kept",
    "SessionTicketPayload": "boolean fields are normalised to 0/1 (own "
                            "ticket format, authenticated by the server)",
}


def _ske_writable(obj):
    """documented precondition of ServerKeyExchange.write(): for TLS 1.2
    signed key exchanges hashAlg and signAlg are non-zero"""
    from symx.core import AND
    if getattr(obj, "signature", None) is not None and \
            obj.version >= (3, 3) and obj.hashAlg is not None:
        return AND(obj.hashAlg != 0, obj.signAlg != 0)
    return True


PRE_WRITE = {
    "ServerKeyExchange_DHE12": _ske_writable,
    "ServerKeyExchange_ECDHE12": _ske_writable,
    "ServerKeyExchange_SRP_RSA": _ske_writable,
}

# messages whose framing is a fixed size handed over by the defragmenter
FIXED = {"Alert": 2, "ChangeCipherSpec": 1, "RecordHeader3": 5}

_hs("ClientKeyExchange_RSA12",
    lambda: M.ClientKeyExchange(CS.TLS_RSA_WITH_AES_128_CBC_SHA, (3, 3)),
    [3, 5, 9], range(3, 16))
_hs("ClientKeyExchange_RSA30",
    lambda: M.ClientKeyExchange(CS.TLS_RSA_WITH_AES_128_CBC_SHA, (3, 0)),
    [3, 5, 9], range(3, 16))
_hs("ClientKeyExchange_DHE",
    lambda: M.ClientKeyExchange(CS.TLS_DHE_RSA_WITH_AES_128_CBC_SHA, (3, 3)),
    [3, 5, 9], range(3, 16))
_hs("ClientKeyExchange_ECDHE",
    lambda: M.ClientKeyExchange(CS.TLS_ECDHE_RSA_WITH_AES_128_CBC_SHA,
                                (3, 3)),
    [3, 4, 9], range(3, 16))
_hs("ClientKeyExchange_SRP",
    lambda: M.ClientKeyExchange(CS.TLS_SRP_SHA_WITH_AES_128_CBC_SHA, (3, 3)),
    [3, 5, 9], range(3, 16))
_hs("Finished12", lambda: M.Finished((3, 3)), [3, 15, 16], range(3, 20))
_hs("Finished30", lambda: M.Finished((3, 0)), [3, 39, 40], [3, 38, 39, 40])
_hs("Finished13", lambda: M.Finished((3, 4), 32), [3, 35, 36],
    [3, 34, 35, 36])
_hs("NextProtocol", lambda: M.NextProtocol(), [3, 5, 9], range(3, 16))
_hs("EncryptedExtensions", lambda: M.EncryptedExtensions(), [3, 5, 9, 13],
    range(3, 17))    # 17 and more bytes exceed the path budget
_hs("NewSessionTicket13", lambda: M.NewSessionTicket(), [3, 17, 20],
    range(3, 26))
_hs("NewSessionTicket12", lambda: M.NewSessionTicket1_0(), [3, 9, 12],
    range(3, 18))
_hs("KeyUpdate", lambda: M.KeyUpdate(), [3, 4, 5], range(3, 8))
_hs("CertificateStatus", lambda: M.CertificateStatus(), [3, 7, 10],
    range(3, 16))

_raw("Alert", lambda: M.Alert(), [0, 1, 2, 3], range(0, 5))
_raw("ChangeCipherSpec", lambda: M.ChangeCipherSpec(), [0, 1, 2],
     range(0, 4))
_raw("Heartbeat", lambda: M.Heartbeat(), [0, 2, 3, 8, 20], range(0, 24))
_raw("RecordHeader3", lambda: M.RecordHeader3(), [4, 5], [3, 4, 5])
_raw("SessionTicketPayload", lambda: M.SessionTicketPayload(),
     [13, 17, 21], list(range(12, 27)), extra_errors=(ValueError,),
     own_data=True)

# extension contexts: how TLSExtension() is constructed by each message parser
EXT_CONTEXTS = {
    "client_hello": dict(),
    "server_hello": dict(server=True),
    "hello_retry": dict(hrr=True),
    "encrypted_extensions": dict(encExt=True),
    "certificate": dict(cert=True),
}


def ext_types():
    """every (context, extension type) pair with a registered class, plus one
    unregistered type per context"""
    T = X.TLSExtension
    out = []
    for ctx, kw in EXT_CONTEXTS.items():
        regs = [dict(T._universalExtensions)]
        if kw.get("server"):
            regs.insert(0, dict(T._serverExtensions))
        if kw.get("hrr"):
            regs.insert(0, dict(T._hrrExtensions))
        if kw.get("cert"):
            regs.insert(0, dict(T._certificateExtensions))
        seen = {}
        for r in reversed(regs):
            seen.update(r)
        for t in sorted(seen):
            # context-specific registrations only once, universal ones in the
            # client_hello context and wherever they are overridden
            if ctx == "client_hello" or any(t in r for r in regs[:-1]):
                out.append((ctx, t))
        out.append((ctx, 0xfafa))
    return out
