"""F18: TLS 1.3 exporter_master_secret is derived over the wrong transcript
when the client authenticates with a certificate.

RFC 8446 7.1: exporter_master_secret = Derive-Secret(Master, "exp master",
ClientHello...server Finished).  tlslite-ng hashes the transcript *after* the
client's Certificate / CertificateVerify on both sides, so two tlslite-ng peers
agree with each other but not with the standard (nor with OpenSSL).

Demonstration 1 (self-contained): a real tlslite-ng client and server over a
socketpair with client authentication; the exporter master secret both hold is
compared with Derive-Secret(master, "exp master", H(CH..server Finished))
computed from the transcript hash that the code itself uses for
"c ap traffic".
Demonstration 2 (if an openssl binary is on PATH): openssl s_server -Verify
with -keymatexport against a tlslite-ng client with a certificate.

usage: /venv/bin/python findings/F18_exporter_client_auth.py   (exit 1 = defect
present, 0 = absent)
"""
import os
import re
import shutil
import socket
import subprocess
import sys
import threading
import time

REPO = os.environ.get("VERIF_REPO", "/repo")
sys.path.insert(0, REPO)
import tlslite.tlsconnection as tc                      # noqa: E402
from tlslite.api import (TLSConnection, HandshakeSettings, X509,  # noqa: E402
                         X509CertChain, parsePEMKey)
from tlslite.utils import cryptomath                    # noqa: E402

T = os.path.join(REPO, "tests")


def load(cert, key):
    c = X509()
    c.parse(open(os.path.join(T, cert)).read())
    k = parsePEMKey(open(os.path.join(T, key)).read(), private=True)
    return X509CertChain([c]), k


def demo_pair():
    captured = {}
    orig = cryptomath.derive_secret

    def spy(secret, label, hh, alg):
        if bytes(label) == b"c ap traffic":
            captured.setdefault("sf", []).append((bytearray(secret),
                                                  hh.copy(), alg))
        return orig(secret, label, hh, alg)
    tc.derive_secret = spy
    try:
        a, b = socket.socketpair()
        srv_chain, srv_key = load("serverX509Cert.pem", "serverX509Key.pem")
        cli_chain, cli_key = load("clientX509Cert.pem", "clientX509Key.pem")
        res = {}

        def server():
            s = TLSConnection(b)
            st = HandshakeSettings()
            st.minVersion = (3, 4)
            s.handshakeServer(certChain=srv_chain, privateKey=srv_key,
                              reqCert=True, settings=st)
            res["s"] = s
        th = threading.Thread(target=server)
        th.start()
        c = TLSConnection(a)
        st = HandshakeSettings()
        st.minVersion = (3, 4)
        c.handshakeClientCert(cli_chain, cli_key, settings=st)
        th.join()
    finally:
        tc.derive_secret = orig
    s = res["s"]
    secret, hh, alg = captured["sf"][0]
    want = orig(secret, bytearray(b"exp master"), hh, alg)
    got_c = c.session.exporterMasterSecret
    got_s = s.session.exporterMasterSecret
    print("client exporter_master_secret:", bytes(got_c).hex())
    print("server exporter_master_secret:", bytes(got_s).hex())
    print("RFC 8446 value (CH..server Fin):", bytes(want).hex())
    return got_c == want and got_s == want


def demo_openssl():
    exe = shutil.which("openssl")
    if not exe:
        print("openssl not found: demonstration 2 skipped")
        return None
    port = 40000 + os.getpid() % 20000
    p = subprocess.Popen(
        [exe, "s_server", "-accept", "127.0.0.1:%d" % port, "-tls1_3",
         "-cert", os.path.join(T, "serverX509Cert.pem"),
         "-key", os.path.join(T, "serverX509Key.pem"),
         "-Verify", "1", "-keymatexport", "EXPORTER-demo",
         "-keymatexportlen", "20", "-naccept", "1"],
        stdin=subprocess.PIPE, stdout=subprocess.PIPE,
        stderr=subprocess.STDOUT)
    try:
        for _ in range(50):
            try:
                sock = socket.create_connection(("127.0.0.1", port), 1)
                break
            except OSError:
                time.sleep(0.1)
        else:
            print("could not reach openssl s_server: skipped")
            return None
        cli_chain, cli_key = load("clientX509Cert.pem", "clientX509Key.pem")
        c = TLSConnection(sock)
        st = HandshakeSettings()
        st.minVersion = (3, 4)
        c.handshakeClientCert(cli_chain, cli_key, settings=st)
        mine = bytes(c.keyingMaterialExporter(bytearray(b"EXPORTER-demo"),
                                              20)).hex()
        c.write(b"x\n")
        time.sleep(0.5)
        c.close()
        sock.close()
        try:
            out = p.communicate(timeout=5)[0].decode(errors="replace")
        except subprocess.TimeoutExpired:
            p.kill()
            out = p.communicate()[0].decode(errors="replace")
    finally:
        if p.poll() is None:
            p.kill()
    m = re.search(r"Keying material:\s*([0-9A-Fa-f]+)", out)
    if not m:
        print("openssl printed no keying material: skipped\n" + out[-400:])
        return None
    theirs = m.group(1).lower()
    print("tlslite-ng client exporter:", mine)
    print("openssl server exporter:   ", theirs)
    return mine == theirs


if __name__ == "__main__":
    ok1 = demo_pair()
    ok2 = demo_openssl()
    bad = (not ok1) or (ok2 is False)
    print("DEFECT PRESENT" if bad else "no defect")
    sys.exit(1 if bad else 0)
