"""F-SRV / F-CLI: drivers for the hello-processing code of TLSConnection.

The real TLSConnection._serverGetClientHello / _clientGetServerHello (and the
head of _handshakeClientAsyncHelper) run on a real connection object in
handshake state; the peer's hello arrives as a record through the real
_getMsg.  Later handshake stages are cut by stubs raising Cut - a cut is the
end of the obligation.
"""
import os

from symx.core import (SymBytes, SymInt, is_concrete_mode, mk_bytearray,
                       sym_range)
from models.fixtures import newbuf
from models.conn import (conn_proxies, FaultSock, record, RecHashes,
                         split_records)

import tlslite.tlsconnection as tc
import tlslite.tlsrecordlayer as trl
import tlslite.messages as M
import tlslite.extensions as X
import tlslite.constants as consts
from tlslite.constants import (ContentType, HandshakeType, ExtensionType,
                               CipherSuite, GroupName, AlertDescription)
from tlslite.handshakesettings import HandshakeSettings
from tlslite.x509 import X509
from tlslite.x509certchain import X509CertChain
from tlslite.utils.keyfactory import parsePEMKey
from tlslite.errors import TLSLocalAlert, TLSRemoteAlert, TLSAlert

TESTS = os.path.join(os.environ.get("VERIF_REPO", "/repo"), "tests")


def _load(cert, key):
    with open(os.path.join(TESTS, cert)) as f:
        c = X509()
        c.parse(f.read())
    with open(os.path.join(TESTS, key)) as f:
        k = parsePEMKey(f.read(), private=True)
    return X509CertChain([c]), k


# loaded once at import time, outside any proxy rebinding
RSA_CHAIN, RSA_KEY = _load("serverX509Cert.pem", "serverX509Key.pem")
EC_CHAIN, EC_KEY = _load("serverECCert.pem", "serverECKey.pem")


class Cut(BaseException):
    """a later handshake stage was reached: end of the obligation"""

    def __init__(self, where, data=None):
        BaseException.__init__(self, where)
        self.where = where
        self.data = data


class HelloHashes(RecHashes):
    """transcript recorder that can also hand out a (fixed) digest"""

    def digest(self, name=None):
        return bytearray(48 if name == "sha384" else 32)

    def copy(self):
        r = HelloHashes()
        r.fed = [list(x) for x in self.fed]
        return r


def hello_proxies():
    from symx.shims import SymSet
    p = conn_proxies()
    p += [(tc, "range", sym_range),
          (tc, "set", SymSet),
          (tc, "TLS_1_3_FORBIDDEN_GROUPS",
           SymSet(consts.TLS_1_3_FORBIDDEN_GROUPS))]
    return p


def fixed_random(n):
    return bytearray((17 * i + 5) & 0xff for i in range(n))


def hello_stubs():
    return [(tc, "getRandomBytes", fixed_random),
            (M, "getRandomBytes", fixed_random),
            (tc, "HandshakeHashes", HelloHashes),
            (trl, "HandshakeHashes", HelloHashes)]


HELLO_ASSUMES = [
    "F-SRV/F-CLI: real TLSConnection in handshake state over an in-memory "
    "socket; the peer's hello arrives as one plaintext record through the "
    "real _getMsg; HandshakeHashes replaced by a recorder; getRandomBytes "
    "returns a fixed pattern; stages after the hello (key exchange, Finished) "
    "are cut",
]


def server_conn(wire):
    conn = tc.TLSConnection(FaultSock(wire))
    conn._handshakeStart(client=False)
    conn._handshake_hash = HelloHashes()
    return conn


def run_server_hello(conn, settings, chain=RSA_CHAIN, key=RSA_KEY,
                     verifierDB=None, cache=None, anon=False, alpn=None,
                     sni=None):
    """returns dict(kind=ret|alert|resumed|other, ...)"""
    def cut_finished(*a, **k):
        raise Cut("resumed", a)
        yield 0

    conn._sendFinished = cut_finished
    conn._calcPendingStates = lambda *a: None
    out = dict(kind=None)
    try:
        res = None
        for res in conn._serverGetClientHello(settings, key, chain,
                                              verifierDB, cache, anon, alpn,
                                              sni):
            if isinstance(res, int) and not isinstance(res, bool) and \
                    res in (0, 1):
                raise AssertionError("would-block in hello driver")
            break
        out["kind"] = "ret"
        out["result"] = res
    except TLSLocalAlert as e:
        out["kind"] = "alert"
        out["alert"] = e
    except TLSRemoteAlert as e:
        out["kind"] = "remote-alert"
        out["alert"] = e
    except Cut as c:
        out["kind"] = c.where
        out["data"] = c.data
    out["sent"] = split_records(conn.sock.socket.out)
    return out


# ---------------------------------------------------------------------------
# ClientHello construction
# ---------------------------------------------------------------------------

def ch_bytes(version, suites, extensions, session_id=b"", random=None,
             compression=(0,)):
    ch = M.ClientHello()
    ch.create(version, random or bytearray(32), newbuf(list(session_id)),
              list(suites), extensions=extensions)
    ch.compression_methods = list(compression)
    return ch.write()


def raw_ext(ext_type, payload):
    return X.TLSExtension(extType=ext_type).create(newbuf(list(payload)))


def std_extensions(tls13=True, groups=(GroupName.secp256r1,
                                       GroupName.x25519),
                   sigalgs=((4, 1), (8, 4), (4, 3)), versions=None,
                   key_share_groups=(GroupName.secp256r1,)):
    exts = []
    exts.append(X.SupportedGroupsExtension().create(list(groups)))
    exts.append(X.ECPointFormatsExtension().create([0]))
    exts.append(X.SignatureAlgorithmsExtension().create(list(sigalgs)))
    if tls13:
        exts.append(X.SupportedVersionsExtension().create(
            list(versions or [(3, 4), (3, 3)])))
        shares = [X.KeyShareEntry().create(g, bytearray(b"\x04" + b"\x01" * 64)
                                           if g != GroupName.x25519
                                           else bytearray(32))
                  for g in key_share_groups]
        exts.append(X.ClientKeyShareExtension().create(shares))
    return exts


def settings_family():
    """a fixed family of validated HandshakeSettings (name -> settings)"""
    fam = {}
    fam["default"] = HandshakeSettings()
    for lo, hi in (((3, 1), (3, 1)), ((3, 1), (3, 2)), ((3, 3), (3, 3)),
                   ((3, 4), (3, 4)), ((3, 2), (3, 3)), ((3, 3), (3, 4))):
        s = HandshakeSettings()
        s.minVersion, s.maxVersion = lo, hi
        fam["v%d%d-%d%d" % (lo + hi)] = s
    s = HandshakeSettings()
    s.cipherNames = ["aes128gcm"]
    fam["aes128gcm-only"] = s
    s = HandshakeSettings()
    s.cipherNames = ["aes256", "aes128"]
    s.macNames = ["sha"]
    s.maxVersion = (3, 3)
    fam["cbc-sha-only"] = s
    s = HandshakeSettings()
    s.keyExchangeNames = ["rsa"]
    s.maxVersion = (3, 3)
    fam["rsa-kx-only"] = s
    s = HandshakeSettings()
    s.keyExchangeNames = ["ecdhe_rsa"]
    s.eccCurves = ["secp384r1"]
    s.keyShares = ["secp384r1"]
    fam["p384-only"] = s
    s = HandshakeSettings()
    s.macNames = ["sha256", "sha384"]
    s.maxVersion = (3, 3)
    fam["no-aead"] = s
    return dict((k, v.validate()) for k, v in fam.items())


# ---------------------------------------------------------------------------
# F-CLI
# ---------------------------------------------------------------------------

def sh_bytes(version, random, session_id, suite, extensions=None,
             compression=0):
    sh = M.ServerHello()
    sh.create(version, random, newbuf(list(session_id)), suite, 0, None,
              None, extensions=extensions)
    sh.compression_method = compression
    return sh.write()


def client_conn():
    """client connection whose socket blocks (would-block) when empty so
    that the wire can be supplied after the ClientHello has been produced"""
    conn = tc.TLSConnection(FaultSock([], block_when_empty=True))
    return conn


def run_client_hello(conn, settings, make_server_wire, session=None,
                     alpn=None, serverName=None, cert_params=None):
    """drives _handshakeClientAsyncHelper up to the first stage after the
    ServerHello checks.  make_server_wire(clientHello) -> bytes to feed once
    the ClientHello has been written.  returns dict(kind=..., clientHello=..)
    kind: 'tls13' | 'resume-check' | 'alert' | 'remote-alert'"""
    out = dict(kind=None, clientHello=None)
    fed = [False]

    def cut13(*a, **k):
        raise Cut("tls13", a)
        yield 0

    def cut_resume(sess, serverHello, *a, **k):
        raise Cut("tls12-continues", serverHello)
        yield 0
    conn._clientTLS13Handshake = cut13
    conn._clientResume = cut_resume
    orig_send = conn._clientSendClientHello

    def send_hello(*a, **k):
        for r in orig_send(*a, **k):
            if isinstance(r, M.ClientHello):
                out["clientHello"] = r
                conn._handshake_hash = HelloHashes()
                conn.sock.socket.inp = newbuf(list(make_server_wire(r)))
                conn.sock.socket.block_when_empty = False
            yield r
    conn._clientSendClientHello = send_hello
    anon = None if cert_params is not None else True
    try:
        for r in conn._handshakeClientAsyncHelper(
                None, cert_params, anon, session,
                settings, serverName, None, False, alpn):
            if isinstance(r, int) and not isinstance(r, bool) and r in (0, 1):
                raise AssertionError("would-block in client hello driver")
        out["kind"] = "completed"
    except TLSLocalAlert as e:
        out["kind"] = "alert"
        out["alert"] = e
    except TLSRemoteAlert as e:
        out["kind"] = "remote-alert"
        out["alert"] = e
    except Cut as c:
        out["kind"] = c.where
        out["data"] = c.data
    out["sent"] = split_records(conn.sock.socket.out)
    return out
