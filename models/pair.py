"""F-PAIR: two real TLSConnection endpoints running a whole TLS 1.3 handshake
against each other over an in-memory pipe.

Both handshake generators (handshakeClientCert(async_=True) and
handshakeServerAsync) are the real code.  What is modelled:

* hash / HMAC: uninterpreted functions (models.hashmodel) behind hashlib and
  hmac in handshakehashes, cryptomath, mathtls, keyexchange, handshakehelpers;
  hence every secret of the key schedule is a term over the symbolic inputs
* randomness: every getRandomBytes() result is a fresh symbolic byte string
  (client/server random, legacy session id, key-share private values);
  32-byte values are assumed not to be the HelloRetryRequest magic and not to
  end in a downgrade sentinel
* (EC)DH: pub(a) = a, shared(a, B) = a xor B (commutative, symbolic);
  agreement - not secrecy - is what the fixture is for
* signatures: sign_k(params, data) = SIG_k(params || data) (uninterpreted),
  verify = equality with that term; the key k is the certificate's
  fingerprint
* record protection: seal_k(nonce, aad, p) = p || TAG(k || nonce || aad || p)
  with the real key/iv derivation (calcTLS1_3PendingState) feeding k and the
  nonce; open() verifies the tag.  Confidentiality is not modelled; which key
  and which sequence number protect which record is.

The wire is logged in temporal order, so the handshake transcript and the
key epoch of every record can be reconstructed independently of either
endpoint's own bookkeeping.
"""
import errno
import socket

from symx.core import (SymBytes, SymInt, mk_bytearray, sym_from_bytes,
                       sym_min, sym_max, sym_range, is_concrete_mode, assume,
                       seq_eq, NOT, AND, OR)
from symx.uf import apply_uf
from symx.shims import sym_pack
from models.fixtures import newbuf, py_compare_digest
from models.conn import conn_proxies
from models.hashmodel import HASHLIB, HMACMOD, hash_bytes, hmac_bytes, SIZES

import tlslite.tlsconnection as tc
import tlslite.tlsrecordlayer as trl
import tlslite.recordlayer as rl
import tlslite.messages as M
import tlslite.extensions as X
import tlslite.keyexchange as kx
import tlslite.handshakehashes as hh_mod
import tlslite.handshakehelpers as hhelp
import tlslite.mathtls as mathtls
import tlslite.session as sess_mod
import tlslite.x509certchain as x509cc
from tlslite.x509 import X509
import tlslite.utils.cryptomath as cryptomath
import tlslite.utils.codec as codec
from tlslite.constants import (TLS_1_3_HRR, TLS_1_1_DOWNGRADE_SENTINEL,
                               TLS_1_2_DOWNGRADE_SENTINEL, ContentType,
                               HandshakeType, CipherSuite)
from tlslite.errors import (TLSAlert, TLSLocalAlert, TLSRemoteAlert,
                            BaseTLSException)


def _ident(x):
    return x


# ---------------------------------------------------------------------------
# environment models
# ---------------------------------------------------------------------------

class RandomSource(object):
    """getRandomBytes(): fresh symbolic bytes per call"""

    def __init__(self, I, concrete=False):
        self.I = I
        self.log = []
        # concrete: fixed distinct patterns (used when an attacker rewrites
        # the wire: symbolic randoms would be re-read as length fields)
        self.concrete = concrete

    def __call__(self, n):
        n = int(n)
        if self.concrete:
            k = len(self.log)
            r = [(37 * k + 11 * i + 0x41) & 0xff for i in range(n)]
            self.log.append(r)
            return newbuf(r)
        r = self.I.bytes(n, "rnd%d" % len(self.log))
        if n == 32:
            assume(NOT(seq_eq(list(r), list(TLS_1_3_HRR))))
            assume(NOT(seq_eq(list(r)[24:],
                              list(TLS_1_1_DOWNGRADE_SENTINEL))))
            assume(NOT(seq_eq(list(r)[24:],
                              list(TLS_1_2_DOWNGRADE_SENTINEL))))
        if n >= 16:
            # fresh random values do not repeat (session ids, nonces)
            for prev in self.log:
                if len(prev) == n:
                    assume(NOT(seq_eq(list(r), list(prev))))
        self.log.append(r)
        return newbuf(list(r))


class ModelKEX(object):
    """pub(a) = a, shared(a, B) = a xor B"""
    SIZES = {29: 32, 30: 56, 23: 65, 24: 97, 25: 133}
    log = None
    rnd = None

    def __init__(self, group, version=None):
        self.group = group
        self.n = self.SIZES.get(group, 32)

    def get_random_private_key(self):
        return ModelKEX.rnd(self.n)

    def calc_public_value(self, private):
        return newbuf(list(private))

    def calc_shared_key(self, private, peer_share):
        from tlslite.errors import TLSIllegalParameterException
        if len(peer_share) != self.n:
            raise TLSIllegalParameterException("Invalid key share")
        out = newbuf([a ^ b for a, b in zip(list(private),
                                            list(peer_share))])
        if ModelKEX.log is not None:
            ModelKEX.log.append((self.group, list(private),
                                 list(peer_share), list(out)))
        return out


class ModelKey(object):
    """signing key: SIG_<id>(params || data)"""
    SIGLEN = 32

    def __init__(self, real, kid):
        self.real = real
        self.kid = kid
        self.key_type = real.key_type
        self.signed = []
        self.verified = []
        self.encrypted = []
        for a in ("curve_name", "public_key", "private_key", "n", "e"):
            if hasattr(real, a):
                setattr(self, a, getattr(real, a))

    def __len__(self):
        return len(self.real)

    def hasPrivateKey(self):
        return True

    def _sig(self, data, padding, hashAlg, saltLen):
        if self.key_type == "rsa":
            tag = ("%s|%s|%s" % (padding, hashAlg, saltLen)).encode()
        else:
            # (EC)DSA signs the digest it is given: padding / hash name do
            # not enter the signature
            tag = b""
        return apply_uf("SIG" + self.kid, [len(tag)] + list(tag) + list(data),
                        self.SIGLEN)

    def sign(self, data, padding=None, hashAlg=None, saltLen=None):
        self.signed.append((list(data), padding, hashAlg, saltLen))
        return self._sig(data, padding, hashAlg, saltLen)

    def verify(self, sig, data, padding=None, hashAlg=None, saltLen=None):
        self.verified.append((list(sig), list(data), padding, hashAlg,
                              saltLen))
        if len(sig) != self.SIGLEN:
            return False
        return seq_eq(list(sig), list(self._sig(data, padding, hashAlg,
                                                saltLen)))

    def hashAndSign(self, data, rsaScheme=None, hAlg=None, sLen=None):
        return self.sign(data, rsaScheme, hAlg, sLen)

    def hashAndVerify(self, sig, data, rsaScheme=None, hAlg=None, sLen=None):
        return self.verify(sig, data, rsaScheme, hAlg, sLen)


MODEL_KEYS = {}


def fp(chain):
    """fingerprint of the end-entity certificate (real SHA-1: the chain
    bytes are concrete)"""
    import hashlib
    return hashlib.sha1(bytes(bytearray(
        int(x) for x in chain.x509List[0].bytes))).hexdigest()


def model_key(chain, real_key, kid):
    k = ModelKey(real_key, kid)
    MODEL_KEYS[fp(chain)] = k
    return k


def _end_entity_key(self):
    k = MODEL_KEYS.get(fp(self))
    if k is None:
        # a certificate nobody registered (e.g. rewritten in flight): some
        # other key, whose holder signed nothing in this run
        leaf = self.x509List[0]
        real = getattr(leaf, "publicKey", None)
        if real is None:
            raise HarnessError("certificate without a public key object")
        k = MODEL_KEYS[fp(self)] = ModelKey(real, "unk" + fp(self)[:8])
    return k


class PairAEAD(object):
    """seal = plaintext || TAG(key || nonce || aad || plaintext)"""
    isBlockCipher = False
    isAEAD = True
    implementation = "model"
    tagLength = 16
    nonceLength = 12
    instances = None
    sealed = None       # list of honest seals -> INT-CTXT assumption on open

    def __init__(self, key, name):
        self.key = list(key)
        self.name = name
        if PairAEAD.instances is not None:
            PairAEAD.instances.append(self)

    def _tag(self, nonce, pt, aad):
        return apply_uf("TAG" + self.name, self.key + list(nonce) +
                        [len(aad)] + list(aad) + list(pt), 16)

    def seal(self, nonce, plaintext, data):
        if PairAEAD.sealed is not None:
            PairAEAD.sealed.append((self.name, list(self.key), list(nonce),
                                    list(data), list(plaintext)))
        return newbuf(list(plaintext)) + self._tag(nonce, plaintext, data)

    def open(self, nonce, ciphertext, data):
        if len(ciphertext) < 16:
            return None
        n = len(ciphertext) - 16
        pt, tag = ciphertext[:n], ciphertext[n:]
        good = seq_eq(list(tag), list(self._tag(nonce, pt, data)))
        if PairAEAD.sealed is not None:
            # ciphertext integrity: a tag verifies only for something that
            # was sealed under the same key, nonce and associated data
            in_w = OR([AND(seq_eq(self.key, w[1]), seq_eq(list(nonce), w[2]),
                           seq_eq(list(data), w[3]), seq_eq(list(pt), w[4]))
                       for w in PairAEAD.sealed
                       if w[0] == self.name and len(w[1]) == len(self.key)
                       and len(w[2]) == len(nonce) and len(w[3]) == len(data)
                       and len(w[4]) == len(pt)])
            assume(OR(in_w, NOT(good)))
        if not good:
            return None
        return newbuf(list(pt))


def _mk_aead(name):
    def create(key, implList=None):
        # the record layer looks at the cipher's name ("aes" in name ->
        # explicit nonce in TLS 1.2), so the model objects carry real names
        return PairAEAD(key, name % (8 * len(key)) if "%" in name else name)
    return create


class HarnessError(BaseException):
    """a bug in the harness itself (never attributed to the code under
    check)"""


class Wire(object):
    """temporal log of everything written by either endpoint"""

    def __init__(self, mitm=None):
        self.log = []       # (sender, bytes) as sent
        self.mitm = mitm    # f(sender, offset_in_stream, bytes) -> bytes
        self.sent = {"c": 0, "s": 0}
        # offsets of record-header length bytes per direction (as sent)
        self.len_offsets = {"c": set(), "s": set()}
        self._next_hdr = {"c": 0, "s": 0}
        self._orig = {"c": [], "s": []}

    def track(self, who, d):
        o = self._orig[who]
        o += list(d)
        while self._next_hdr[who] + 5 <= len(o):
            h = self._next_hdr[who]
            self.len_offsets[who].update((h + 3, h + 4))
            self._next_hdr[who] = h + 5 + ((int(o[h + 3]) << 8) |
                                           int(o[h + 4]))


class PipeSock(object):
    def __init__(self, wire, who):
        self.wire = wire
        self.who = who
        self.inp = newbuf()
        self.peer = None
        self.closed = False

    def _fault(self, op, ready=True):
        """transport fault plan (FaultPlan installed as wire.mitm): the k-th
        send / data-bearing recv of one side fails; from then on that side's
        transport is dead (buffered input is still readable, then ECONNRESET)
        and the peer reads EOF once its inbox is drained"""
        plan = getattr(self.wire.mitm, "fault", None)
        if plan is None or plan["who"] != self.who:
            return None
        if plan.get("fired"):
            if op == "send" or len(self.inp) == 0:
                raise socket.error(plan["errno"], "transport is dead")
            return None
        if plan["op"] != op or not ready:
            return None
        n = plan.setdefault("count", 0)
        plan["count"] = n + 1
        if n != plan["k"]:
            return None
        plan["fired"] = True
        self.closed = True
        if plan["mode"] == "eof":
            self.inp = newbuf()
            plan["errno"] = errno.EPIPE
            return "eof"
        plan["errno"] = {"reset": errno.ECONNRESET,
                         "epipe": errno.EPIPE}[plan["mode"]]
        if op == "recv":
            self.inp = newbuf()
        raise socket.error(plan["errno"], "injected transport fault")

    def send(self, d):
        self._fault("send")
        self.wire.log.append((self.who, list(d)))
        n = len(d)
        self.wire.track(self.who, d)
        if self.wire.mitm is not None:
            try:
                d = self.wire.mitm(self.who, self.wire.sent[self.who], d)
            except Exception as e:
                import traceback
                raise HarnessError(traceback.format_exc())
        self.wire.sent[self.who] += n
        self.peer.inp += d
        return n

    def sendall(self, d):
        self.send(d)

    def recv(self, n):
        if self._fault("recv", ready=len(self.inp) > 0) == "eof":
            return newbuf()
        if len(self.inp) == 0:
            if self.peer.closed:
                return newbuf()
            raise socket.error(errno.EWOULDBLOCK, "would block")
        r = self.inp[:n]
        self.inp = self.inp[n:]
        return r

    def close(self):
        self.closed = True

    def shutdown(self, how):
        pass

    def settimeout(self, t):
        pass

    def gettimeout(self):
        return None


class FaultPlan(object):
    """pass-through 'attacker' that carries a transport fault plan: the k-th
    (0-based) `op` call (send, or recv with data waiting) of endpoint `who`
    fails with `mode`: reset (ECONNRESET), epipe (EPIPE) or, for recv, eof"""

    def __init__(self, who, op, k, mode):
        self.fault = dict(who=who, op=op, k=k, mode=mode)

    def __call__(self, who, off, data):
        return data

    @property
    def fired(self):
        return bool(self.fault.get("fired"))


class PairX509(X509):
    """the real X509 class; the (concrete) certificate bytes arrive in a
    SymBytes container and are handed to the real ASN.1 parser natively"""

    def parseBinary(self, b):
        return X509.parseBinary(self, bytearray(int(x) for x in b))


def _exact_torepr(cls, value, blacklist=None):
    """TLSEnum.toRepr with its real first-match semantics, also for symbolic
    values (one path per matching constant): in the handshake code the NAME
    of a signature scheme / hash decides what is verified"""
    from models.codec_env import _has_sym, _ORIG_TOREPR
    if not _has_sym(value):
        if blacklist is None:
            return _ORIG_TOREPR(cls, value)
        return _ORIG_TOREPR(cls, value, blacklist)
    fields = cls._recursiveVars(cls)
    bl = list(blacklist or [])
    for key, val in fields.items():
        if key.startswith("__") or key in bl:
            continue
        if isinstance(value, tuple):
            if not isinstance(val, tuple) or len(val) != len(value):
                continue
            if all(bool(a == b) for a, b in zip(val, value)):
                return key
        elif isinstance(val, int) and not isinstance(val, bool):
            if val == value:
                return key
    return None


def _exact_tostr(cls, value, blacklist=None):
    r = cls.toRepr(value, blacklist)
    return r if r is not None else "<%s>" % cls.__name__


def pair_proxies():
    import tlslite.constants as consts
    from symx.core import SymInt as _SI
    p = [x for x in conn_proxies()
         if not (x[0] is M and x[1] == "X509")
         and not (x[0] is consts.TLSEnum and x[1] in ("toRepr", "toStr"))]
    p.append((M, "X509", PairX509))
    p.append((consts.TLSEnum, "toRepr", classmethod(_exact_torepr)))
    p.append((consts.TLSEnum, "toStr", classmethod(_exact_tostr)))
    p.append((kx, "int_types", (int, _SI)))
    from symx.shims import SymSet
    import tlslite.constants as consts
    p += [(tc, "range", sym_range),
          (cryptomath, "bytearray", mk_bytearray),
          (cryptomath, "compatHMAC", _ident),
          (cryptomath, "compat26Str", _ident),
          (mathtls, "bytearray", mk_bytearray),
          (mathtls, "compatHMAC", _ident),
          (hh_mod, "bytearray", mk_bytearray),
          (hh_mod, "compat26Str", _ident),
          (hh_mod, "compatHMAC", _ident),
          (hhelp, "bytearray", mk_bytearray),
          (kx, "bytearray", mk_bytearray),
          (X, "bytearray", mk_bytearray),
          (sess_mod, "bytearray", mk_bytearray),
          (codec, "pack", sym_pack)]
    return p


def pair_stubs(rnd):
    st = [(hh_mod, "hashlib", HASHLIB),
          (cryptomath, "hashlib", HASHLIB),
          (cryptomath, "hmac", HMACMOD),
          (mathtls, "hashlib", HASHLIB),
          (mathtls, "hmac", HMACMOD),
          (tc, "getRandomBytes", rnd),
          (M, "getRandomBytes", rnd),
          (tc.TLSConnection, "_getKEX", staticmethod(ModelKEX)),
          (x509cc.X509CertChain, "getEndEntityPublicKey", _end_entity_key),
          (rl, "createAESGCM", _mk_aead("aes%dgcm")),
          (rl, "createCHACHA20", _mk_aead("chacha20-poly1305")),
          (rl, "createAESCCM", _mk_aead("aes%dccm")),
          (rl, "createAESCCM_8", _mk_aead("aes%dccm_8")),
          (hhelp, "ct_compare_digest", py_compare_digest)]
    if hasattr(kx, "hashlib"):
        st.append((kx, "hashlib", HASHLIB))
    if hasattr(tc, "hashlib"):
        pass        # only digest_size lookups (getattr(hashlib, n)()) - real
    return st


PAIR_ASSUMES = [
    "F-PAIR: two real TLSConnection endpoints (handshakeClientCert async / "
    "handshakeServerAsync) over an in-memory pipe, stepped alternately until "
    "both finish or both block",
    "hash and HMAC are uninterpreted functions (one per algorithm, key length "
    "and input length); every getRandomBytes() result is a fresh symbolic "
    "byte string (32-byte values assumed != HelloRetryRequest magic and not "
    "ending in a downgrade sentinel)",
    "(EC)DH model: pub(a)=a, shared(a,B)=a xor B; signature model: "
    "SIG_key(params||data) uninterpreted, verify = equality; AEAD model: "
    "seal = plaintext || TAG(key||nonce||aad||plaintext) with the real "
    "key/iv derivation - confidentiality and the primitives themselves are "
    "outside the claim (C09 covers the primitives)",
]


# ---------------------------------------------------------------------------
# driver
# ---------------------------------------------------------------------------

class Endpoint(object):
    def __init__(self, conn, gen):
        self.conn = conn
        self.gen = gen
        self.done = False
        self.error = None
        self.crash = None
        self.blocked = False

    def step(self):
        """run until the generator blocks on an empty inbox or finishes"""
        if self.done:
            return False
        progressed = False
        while True:
            try:
                r = next(self.gen)
            except StopIteration:
                self.done = True
                return True
            except (BaseTLSException, socket.error) as e:
                self.done = True
                self.error = e
                return True
            except (AssertionError, TypeError, ValueError, IndexError,
                    KeyError, AttributeError, OverflowError,
                    ZeroDivisionError, UnicodeError) as e:
                # not a TLS error: the caller sees a raw Python exception
                import traceback
                self.done = True
                self.error = e
                self.crash = traceback.format_exc()
                return True
            if r == 0:
                # wants to read: inbox empty
                if len(self.conn.sock.socket.inp) == 0 and \
                        len(getattr(self.conn.sock, "_read_buffer",
                                    b"")) == 0:
                    self.blocked = True
                    return progressed
            progressed = True


def run_pair(client_gen_factory, server_gen_factory, max_rounds=40,
             mitm=None):
    """returns (client_ep, server_ep, wire)"""
    wire = Wire(mitm)
    if mitm is not None and hasattr(mitm, "wire"):
        mitm.wire[0] = wire
    cs, ss = PipeSock(wire, "c"), PipeSock(wire, "s")
    cs.peer, ss.peer = ss, cs
    cconn = tc.TLSConnection(cs)
    sconn = tc.TLSConnection(ss)
    cep = Endpoint(cconn, client_gen_factory(cconn))
    sep = Endpoint(sconn, server_gen_factory(sconn))
    for _ in range(max_rounds):
        before = (len(wire.log), cep.done, sep.done)
        cep.step()
        sep.step()
        if cep.done and sep.done:
            break
        if before == (len(wire.log), cep.done, sep.done):
            break       # deadlock: both blocked with empty inboxes
    return cep, sep, wire


def pump(ep_from, gen, ep_to=None):
    """run an application-level generator (writeAsync/readAsync) to its
    result"""
    res = None
    for r in gen:
        if isinstance(r, int) and not isinstance(r, bool) and r in (0, 1):
            return ("blocked", r)
        res = r
        return ("value", res)
    return ("value", None)


# ---------------------------------------------------------------------------
# independent reconstruction from the wire
# ---------------------------------------------------------------------------

def wire_records(wire):
    """[(sender, ctype, version, payload)] in temporal order"""
    out = []
    bufs = {"c": [], "s": []}
    for who, d in wire.log:
        b = bufs[who]
        b += d
        while len(b) >= 5:
            n = (int(b[3]) << 8) | int(b[4])
            if len(b) < 5 + n:
                break
            out.append((who, int(b[0]), (int(b[1]), int(b[2])), b[5:5 + n]))
            del b[:5 + n]
    return out


class WireView(object):
    """handshake messages and record epochs as seen on the wire (TLS 1.3:
    a record is protected iff its outer type is application_data)"""

    def __init__(self, wire):
        self.records = wire_records(wire)
        self.msgs = []          # (sender, hs_type, bytes) in temporal order
        self.protected = []     # (sender, inner_type, plaintext, tag, header)
        frag = {"c": [], "s": []}
        for who, ct, ver, payload in self.records:
            if ct == ContentType.application_data:
                inner = payload[:-16]
                tag = payload[-16:]
                # no padding is produced by tlslite unless configured
                ityp = int(inner[-1])
                body = inner[:-1]
                self.protected.append(dict(sender=who, type=ityp,
                                           inner=inner, tag=tag,
                                           header=[ct, ver[0], ver[1],
                                                   len(payload) >> 8,
                                                   len(payload) & 0xff]))
            else:
                ityp, body = ct, payload
            if ityp == ContentType.handshake:
                f = frag[who]
                f += body
                while len(f) >= 4:
                    n = (int(f[1]) << 16) | (int(f[2]) << 8) | int(f[3])
                    if len(f) < 4 + n:
                        break
                    self.msgs.append((who, int(f[0]), f[:4 + n]))
                    if self.protected and ct == ContentType.application_data:
                        self.protected[-1].setdefault("ends", []).append(
                            int(f[0]))
                    del f[:4 + n]

    def transcript_upto(self, pred, alg=None):
        """concatenation of handshake messages up to and including the first
        message satisfying pred(sender, type).  With alg given, a
        HelloRetryRequest exchange is folded as RFC 8446 4.4.1 says:
        ClientHello1 is replaced by message_hash || 00 00 Hash.length ||
        Hash(ClientHello1) and the HelloRetryRequest is not the ServerHello
        the predicate looks for."""
        msgs = list(self.msgs)
        self.hrr = False
        if alg is not None and len(msgs) >= 2 and \
                msgs[1][1] == HandshakeType.server_hello and \
                [int(x) if isinstance(x, int) else None
                 for x in msgs[1][2][6:38]] == list(TLS_1_3_HRR):
            self.hrr = True
            h = list(hash_bytes(alg, msgs[0][2]))
            synth = [HandshakeType.message_hash, 0, 0, len(h)] + h
            msgs = [("c", HandshakeType.message_hash, synth),
                    ("s", -1, msgs[1][2])] + msgs[2:]
        out = []
        for who, t, b in msgs:
            out += b
            if pred(who, t):
                return out
        return None


# ---------------------------------------------------------------------------
# RFC 8446 section 7.1 reference, over the same hash model
# ---------------------------------------------------------------------------

def hkdf_expand_label(alg, secret, label, ctx, length):
    info = [length >> 8, length & 0xff, len(label) + 6] + \
        list(b"tls13 ") + list(label) + [len(ctx)] + list(ctx)
    out = []
    t = []
    i = 1
    while len(out) < length:
        t = list(hmac_bytes(alg, secret, t + info + [i]))
        out += t
        i += 1
    return out[:length]


def derive_secret(alg, secret, label, messages):
    return hkdf_expand_label(alg, secret, label,
                             list(hash_bytes(alg, messages)), SIZES[alg][0])


class Schedule13(object):
    def __init__(self, alg, psk, shared, view):
        n = SIZES[alg][0]
        z = [0] * n
        self.alg = alg
        psk = list(psk) if psk is not None else z
        shared = list(shared) if shared is not None else z
        self.early = list(hmac_bytes(alg, z, psk))
        d = derive_secret(alg, self.early, b"derived", [])
        self.hs = list(hmac_bytes(alg, d, shared))
        t_sh = view.transcript_upto(
            lambda w, t: w == "s" and t == HandshakeType.server_hello, alg)
        self.c_hs = derive_secret(alg, self.hs, b"c hs traffic", t_sh)
        self.s_hs = derive_secret(alg, self.hs, b"s hs traffic", t_sh)
        d = derive_secret(alg, self.hs, b"derived", [])
        self.master = list(hmac_bytes(alg, d, z))
        t_sf = view.transcript_upto(
            lambda w, t: w == "s" and t == HandshakeType.finished, alg)
        self.c_ap = derive_secret(alg, self.master, b"c ap traffic", t_sf)
        self.s_ap = derive_secret(alg, self.master, b"s ap traffic", t_sf)
        self.exp = derive_secret(alg, self.master, b"exp master", t_sf)
        t_cf = view.transcript_upto(
            lambda w, t: w == "c" and t == HandshakeType.finished, alg)
        self.res = derive_secret(alg, self.master, b"res master", t_cf) \
            if t_cf is not None else None

    def exporter(self, label, context, length):
        s = derive_secret(self.alg, self.exp, label, [])
        return hkdf_expand_label(self.alg, s, b"exporter",
                                 list(hash_bytes(self.alg, context or [])),
                                 length)

    def key_iv(self, secret, klen, ivlen=12):
        return (hkdf_expand_label(self.alg, secret, b"key", [], klen),
                hkdf_expand_label(self.alg, secret, b"iv", [], ivlen))


# ---------------------------------------------------------------------------
# TLS 1.3 scenario set-up shared by the obligations
# ---------------------------------------------------------------------------

SUITES13 = {"aes128": CipherSuite.TLS_AES_128_GCM_SHA256,
            "aes256": CipherSuite.TLS_AES_256_GCM_SHA384,
            "chacha": CipherSuite.TLS_CHACHA20_POLY1305_SHA256}
CIPHER13 = {"aes128": ("aes128gcm", 16, "sha256", "aes128gcm"),
            "aes256": ("aes256gcm", 32, "sha384", "aes256gcm"),
            "chacha": ("chacha20-poly1305", 32, "sha256",
                       "chacha20-poly1305")}


class Scenario13(object):
    """one TLS 1.3 handshake between two fresh endpoints"""

    def __init__(self, I, rnd, auth, sname, intctxt=False):
        from tlslite.handshakesettings import HandshakeSettings
        from models.hello import RSA_CHAIN, RSA_KEY, EC_CHAIN, EC_KEY
        self.I = I
        rnd.I = I
        rnd.log = []
        ModelKEX.rnd = rnd
        ModelKEX.log = []
        PairAEAD.instances = []
        PairAEAD.sealed = [] if intctxt else None
        self.auth, self.sname = auth, sname
        self.cname, self.klen, self.alg, self.tagname = CIPHER13[sname]
        self.n = SIZES[self.alg][0]

        def mk():
            s = HandshakeSettings()
            s.minVersion = s.maxVersion = (3, 4)
            s.cipherNames = [self.cname]
            s.keyShares = ["x25519"]
            s.eccCurves = ["x25519"]
            s.dhGroups = []
            s.ticket_count = 0
            return s
        self.cset, self.sset = mk(), mk()
        self.psk = None
        if auth.startswith("psk"):
            self.psk = I.bytes(self.n, "psk")
            mode = "psk_dhe_ke" if auth == "psk_dhe" else "psk_ke"
            for st in (self.cset, self.sset):
                st.pskConfigs = [(bytearray(b"ident"),
                                  newbuf(list(self.psk)), self.alg)]
                st.psk_modes = [mode]
        self.srv_chain, self.cli_chain = RSA_CHAIN, EC_CHAIN
        self.skey = model_key(RSA_CHAIN, RSA_KEY, "srv")
        self.ckey = model_key(EC_CHAIN, EC_KEY, "cli")
        self.client_auth = auth == "cert+client"
        self.client_kwargs = {}
        self.server_kwargs = {}

    def cgen(self, conn):
        if self.client_auth:
            return conn.handshakeClientCert(self.cli_chain, self.ckey,
                                            settings=self.cset, async_=True,
                                            **self.client_kwargs)
        return conn.handshakeClientCert(settings=self.cset, async_=True,
                                        **self.client_kwargs)

    def sgen(self, conn):
        if self.auth.startswith("psk"):
            return conn.handshakeServerAsync(settings=self.sset,
                                             **self.server_kwargs)
        return conn.handshakeServerAsync(certChain=self.srv_chain,
                                         privateKey=self.skey,
                                         reqCert=self.client_auth,
                                         settings=self.sset,
                                         **self.server_kwargs)

    def run(self, mitm=None):
        self.cep, self.sep, self.wire = run_pair(self.cgen, self.sgen,
                                                 mitm=mitm)
        self.c, self.s = self.cep.conn, self.sep.conn
        return self

    def completed(self, ep):
        return ep.done and ep.error is None

    def both_completed(self):
        return self.completed(self.cep) and self.completed(self.sep)

    def shared(self):
        if self.auth == "psk_ke":
            return None
        return ModelKEX.log[0][3]


# ---------------------------------------------------------------------------
# TLS 1.0 - 1.2
# ---------------------------------------------------------------------------

def p_hash(alg, secret, seed, length):
    out = []
    a = list(seed)
    secret = list(secret)
    while len(out) < length:
        a = list(hmac_bytes(alg, secret, a))
        out += list(hmac_bytes(alg, secret, a + list(seed)))
    return out[:length]


def prf(version, alg, secret, label, seed, length):
    """RFC 2246 / 5246 section 5"""
    secret, seed = list(secret), list(label) + list(seed)
    if version >= (3, 3):
        return p_hash(alg, secret, seed, length)
    half = (len(secret) + 1) // 2
    a = p_hash("md5", secret[:half], seed, length)
    b = p_hash("sha1", secret[len(secret) - half:], seed, length)
    return [x ^ y for x, y in zip(a, b)]


class KxRandom(object):
    """getRandomBytes for keyexchange.py: the 48-byte RSA premaster secret is
    symbolic, finite-field / SRP exponents are fixed patterns (the real
    modular arithmetic runs natively)"""

    def __init__(self, rnd):
        self.rnd = rnd
        self.k = 0

    def __call__(self, n):
        n = int(n)
        if n == 48:
            return self.rnd(48)
        self.k += 1
        return bytearray((91 * self.k + 13 * i + 7) & 0xff for i in range(n))


class DHSpy(object):
    """records what FFDHKeyExchange.calc_shared_key returned"""
    log = []

    @staticmethod
    def wrap(orig):
        def calc_shared_key(self, private, peer_share, *a, **k):
            r = orig(self, private, peer_share, *a, **k)
            DHSpy.log.append(list(r))
            return r
        return calc_shared_key


class ModelKEX12(ModelKEX):
    """TLS <= 1.2 ECDHE through the same model (extra arguments ignored)"""

    def calc_public_value(self, private, point_format=None):
        return ModelKEX.calc_public_value(self, private)

    def calc_shared_key(self, private, peer_share, valid_point_formats=None):
        return ModelKEX.calc_shared_key(self, private, peer_share)


def _rsa_encrypt(self, data):
    self.encrypted.append(list(data))
    return newbuf([0xEE] + list(data))


def _rsa_decrypt(self, data):
    data = list(data)
    if len(data) < 1 or data[0] != 0xEE:
        return None
    return newbuf(data[1:])


ModelKey.encrypt = _rsa_encrypt
ModelKey.decrypt = _rsa_decrypt


class PairCBC(object):
    """CBC-mode object with identity encryption (integrity is the MAC's
    job; confidentiality is not modelled)"""
    isBlockCipher = True
    isAEAD = False
    implementation = "model"

    def __init__(self, key, iv, name, block_size):
        self.key, self.IV = list(key), list(iv)
        self.name = name
        self.block_size = block_size

    def encrypt(self, data):
        if len(data) % self.block_size:
            raise AssertionError("model: CBC encrypt of partial block")
        return newbuf(list(data))

    def decrypt(self, data):
        if len(data) % self.block_size:
            raise AssertionError("model: CBC decrypt of partial block")
        return newbuf(list(data))


class PairStream(object):
    isBlockCipher = False
    isAEAD = False
    implementation = "model"
    name = "rc4"

    def __init__(self, key):
        self.key = list(key)

    def encrypt(self, data):
        return newbuf(list(data))

    decrypt = encrypt


def _create_hmac(k, digestmod=None):
    from models.hashmodel import ModelHMAC
    return ModelHMAC(k, None, digestmod)


def pair12_stubs(rnd):
    st = pair_stubs(rnd)
    st += [(kx, "getRandomBytes", KxRandom(rnd)),
           (kx, "ECDHKeyExchange", ModelKEX12),
           (kx.FFDHKeyExchange, "calc_shared_key",
            DHSpy.wrap(kx.FFDHKeyExchange.__dict__["calc_shared_key"])),
           (rl, "hashlib", HASHLIB),
           (rl, "createHMAC", _create_hmac),
           (rl, "createAES",
            lambda key, iv, impl=None: PairCBC(key, iv, "aes%d" %
                                               (8 * len(key)), 16)),
           (rl, "createTripleDES",
            lambda key, iv, impl=None: PairCBC(key, iv, "3des", 8)),
           (rl, "createRC4", lambda key, iv, impl=None: PairStream(key)),
           (rl, "getRandomBytes", rnd),
           (kx, "powMod", model_powmod)]
    return st


class WireView12(object):
    """TLS <= 1.2: records of a direction are protected after its CCS"""

    def __init__(self, wire):
        self.records = wire_records(wire)
        self.msgs = []
        self.protected = []
        self.ccs = {"c": False, "s": False}
        frag = {"c": [], "s": []}
        for who, ct, ver, payload in self.records:
            if self.ccs[who]:
                self.protected.append(dict(sender=who, type=ct, ver=ver,
                                           payload=payload))
                continue
            if ct == ContentType.change_cipher_spec:
                self.ccs[who] = True
                continue
            if ct == ContentType.handshake:
                f = frag[who]
                f += payload
                while len(f) >= 4:
                    n = (int(f[1]) << 16) | (int(f[2]) << 8) | int(f[3])
                    if len(f) < 4 + n:
                        break
                    self.msgs.append((who, int(f[0]), f[:4 + n]))
                    del f[:4 + n]

    def first(self, who, hs_type):
        for w, t, b in self.msgs:
            if w == who and t == hs_type:
                return b
        return None


class Scenario12(object):
    """one TLS 1.0-1.2 handshake between two fresh endpoints"""

    def __init__(self, I, rnd, version, kxname, cipher, mac="sha",
                 ems=True, etm=True):
        from tlslite.handshakesettings import HandshakeSettings
        from models.hello import RSA_CHAIN, RSA_KEY, EC_CHAIN, EC_KEY
        self.I = I
        rnd.I = I
        rnd.log = []
        ModelKEX.rnd = rnd
        ModelKEX.log = []
        DHSpy.log = []
        PairAEAD.instances = []
        PairAEAD.sealed = None
        self.version, self.kxname, self.cipher = version, kxname, cipher

        def mk():
            s = HandshakeSettings()
            s.minVersion = s.maxVersion = version
            s.cipherNames = [cipher]
            s.macNames = [mac] if cipher not in (
                "aes128gcm", "aes256gcm", "chacha20-poly1305",
                "aes128ccm", "aes256ccm") else ["aead"]
            if cipher in ("aes128gcm", "aes256gcm", "chacha20-poly1305"):
                s.macNames = ["aead"]
            s.keyExchangeNames = [kxname]
            s.eccCurves = ["x25519", "secp256r1"]
            s.keyShares = []
            s.dhGroups = ["ffdhe2048"]
            s.useExtendedMasterSecret = ems
            s.useEncryptThenMAC = etm
            s.ticket_count = 0
            return s
        self.cset, self.sset = mk(), mk()
        if kxname == "ecdhe_ecdsa":
            self.srv_chain = EC_CHAIN
            self.skey = model_key(EC_CHAIN, EC_KEY, "srv")
        else:
            self.srv_chain = RSA_CHAIN
            self.skey = model_key(RSA_CHAIN, RSA_KEY, "srv")
        self.skey.encrypted = []
        self.client_kwargs = {}
        self.server_kwargs = {}

    def cgen(self, conn):
        return conn.handshakeClientCert(settings=self.cset, async_=True,
                                        **self.client_kwargs)

    def sgen(self, conn):
        return conn.handshakeServerAsync(certChain=self.srv_chain,
                                         privateKey=self.skey,
                                         settings=self.sset,
                                         **self.server_kwargs)

    def run(self, mitm=None):
        self.cep, self.sep, self.wire = run_pair(self.cgen, self.sgen,
                                                 mitm=mitm)
        self.c, self.s = self.cep.conn, self.sep.conn
        return self

    def both_completed(self):
        return all(ep.done and ep.error is None
                   for ep in (self.cep, self.sep))

    def premaster(self):
        if self.kxname == "rsa":
            return self.skey.encrypted[0] if self.skey.encrypted else None
        if self.kxname.startswith("ecdhe"):
            return ModelKEX.log[0][3] if ModelKEX.log else None
        return DHSpy.log[0] if DHSpy.log else None


# ---------------------------------------------------------------------------
# general scenario (free-form settings), record-level attacker, corrupt keys
# ---------------------------------------------------------------------------

def reset_models(I, rnd, intctxt=False, euf=False):
    rnd.I = I
    rnd.log = []
    ModelKEX.rnd = rnd
    ModelKEX.log = []
    DHSpy.log = []
    PairAEAD.instances = []
    PairAEAD.sealed = [] if intctxt else None
    ModelKey.euf = euf
    ModelKey.all_signed = []


ModelKey.euf = False
ModelKey.all_signed = []
_plain_sign = ModelKey.sign
_plain_verify = ModelKey.verify


def _sign_logged(self, data, padding=None, hashAlg=None, saltLen=None):
    sig = _plain_sign(self, data, padding, hashAlg, saltLen)
    ModelKey.all_signed.append((self.kid, list(data), list(sig)))
    return sig


def _verify_euf(self, sig, data, padding=None, hashAlg=None, saltLen=None):
    good = _plain_verify(self, sig, data, padding, hashAlg, saltLen)
    if ModelKey.euf and not isinstance(good, bool):
        # existential unforgeability: a signature verifies under key k only
        # if the holder of k signed exactly this data
        mine = [w for w in ModelKey.all_signed
                if w[0] == self.kid and len(w[1]) == len(data)]
        assume(OR(NOT(good), OR([seq_eq(list(data), w[1]) for w in mine])))
    return good


ModelKey.sign = _sign_logged
ModelKey.verify = _verify_euf


class CorruptKey(ModelKey):
    """a peer that does not hold the private key of the certificate it
    presents: sign() returns what the corruption class dictates; the peer's
    own self-check (verify on its private key object) is made to pass"""

    def __init__(self, real, kid, mode, I, other=None):
        ModelKey.__init__(self, real, kid)
        self.mode = mode
        self.I = I
        self.other = other

    def sign(self, data, padding=None, hashAlg=None, saltLen=None):
        good = _plain_sign(self, data, padding, hashAlg, saltLen)
        self.signed.append((list(data), padding, hashAlg, saltLen))
        if self.mode == "arbitrary":
            sig = self.I.bytes(self.SIGLEN, "forged_sig")
            assume(NOT(seq_eq(list(sig), list(good))))
            return newbuf(list(sig))
        if self.mode == "bitflip":
            sig = list(good)
            j = self.I.pick(list(range(0, self.SIGLEN, 5)), "flip_byte")
            m = self.I.byte("flip_mask")
            assume(m != 0)
            sig[j] = sig[j] ^ m
            return newbuf(sig)
        if self.mode == "other-key":
            return _plain_sign(self.other, data, padding, hashAlg, saltLen)
        if self.mode == "other-transcript":
            d2 = list(data)
            d2[-1] = d2[-1] ^ 1
            return _plain_sign(self, d2, padding, hashAlg, saltLen)
        if self.mode == "empty":
            return newbuf([])
        if self.mode == "short":
            return newbuf(list(good)[:-1])
        if self.mode == "long":
            return newbuf(list(good) + [0])
        raise ValueError(self.mode)

    def verify(self, sig, data, padding=None, hashAlg=None, saltLen=None):
        return True        # the dishonest peer does not check itself

    def hashAndVerify(self, sig, data, rsaScheme=None, hAlg=None, sLen=None):
        return True


def distinct_keys_assumption():
    """signatures under different keys / over different data do not
    coincide (the SIG_* functions are free otherwise)"""
    from symx.uf import assume_collision_free
    assume_collision_free(["SIG"])


class Scenario(object):
    """one handshake between two fresh endpoints with caller-made settings"""

    def __init__(self, I, rnd, cset, sset, server_cred="rsa",
                 client_cred=None, req_cert=False, intctxt=False, euf=False,
                 skey=None, ckey=None, reset=True):
        from models.hello import RSA_CHAIN, RSA_KEY, EC_CHAIN, EC_KEY
        if reset:
            reset_models(I, rnd, intctxt, euf)
        self.I = I
        self.cset, self.sset = cset, sset
        creds = {"rsa": (RSA_CHAIN, RSA_KEY), "ecdsa": (EC_CHAIN, EC_KEY)}
        self.srv_chain = self.cli_chain = None
        self.skey = self.ckey = None
        if server_cred:
            self.srv_chain = creds[server_cred][0]
            self.skey = skey or model_key(self.srv_chain,
                                          creds[server_cred][1], "srv")
            MODEL_KEYS[fp(self.srv_chain)] = self.skey \
                if not isinstance(self.skey, CorruptKey) \
                else ModelKey(self.skey.real, self.skey.kid)
            self.skey.encrypted = []
            MODEL_KEYS[fp(self.srv_chain)].encrypted = self.skey.encrypted
        if client_cred:
            self.cli_chain = creds[client_cred][0]
            self.ckey = ckey or model_key(self.cli_chain,
                                          creds[client_cred][1], "cli")
            MODEL_KEYS[fp(self.cli_chain)] = self.ckey \
                if not isinstance(self.ckey, CorruptKey) \
                else ModelKey(self.ckey.real, self.ckey.kid)
        self.req_cert = req_cert
        self.client_kwargs = {}
        self.server_kwargs = {}

    def cgen(self, conn):
        if self.cli_chain is not None:
            return conn.handshakeClientCert(self.cli_chain, self.ckey,
                                            settings=self.cset, async_=True,
                                            **self.client_kwargs)
        return conn.handshakeClientCert(settings=self.cset, async_=True,
                                        **self.client_kwargs)

    def sgen(self, conn):
        if self.srv_chain is None:
            return conn.handshakeServerAsync(settings=self.sset,
                                             **self.server_kwargs)
        return conn.handshakeServerAsync(certChain=self.srv_chain,
                                         privateKey=self.skey,
                                         reqCert=self.req_cert,
                                         settings=self.sset,
                                         **self.server_kwargs)

    def run(self, mitm=None):
        self.cep, self.sep, self.wire = run_pair(self.cgen, self.sgen,
                                                 mitm=mitm)
        self.c, self.s = self.cep.conn, self.sep.conn
        return self

    def completed(self, ep):
        return ep.done and ep.error is None

    def both_completed(self):
        return self.completed(self.cep) and self.completed(self.sep)


def settings13(cipher="aes128gcm", **kw):
    from tlslite.handshakesettings import HandshakeSettings
    s = HandshakeSettings()
    s.minVersion = s.maxVersion = (3, 4)
    s.cipherNames = [cipher]
    s.keyShares = ["x25519"]
    s.eccCurves = ["x25519", "secp256r1"]
    s.dhGroups = []
    s.ticket_count = 0
    for k, v in kw.items():
        setattr(s, k, v)
    return s


def settings12(version=(3, 3), kxname="ecdhe_rsa", cipher="aes128gcm",
               mac="sha", **kw):
    from tlslite.handshakesettings import HandshakeSettings
    s = HandshakeSettings()
    s.minVersion = s.maxVersion = version
    s.cipherNames = [cipher]
    s.macNames = ["aead"] if cipher in ("aes128gcm", "aes256gcm",
                                        "chacha20-poly1305") else [mac]
    s.keyExchangeNames = [kxname]
    s.eccCurves = ["x25519", "secp256r1"]
    s.keyShares = []
    s.dhGroups = ["ffdhe2048"]
    s.ticket_count = 0
    for k, v in kw.items():
        setattr(s, k, v)
    return s


class RecordMitm(object):
    """attacker acting on whole records of one direction: action on the k-th
    record: drop | dup | swap (with the following record) | hold-to-end"""

    def __init__(self, who, k, action):
        self.who, self.k, self.action = who, k, action
        self.buf = []
        self.n = 0
        self.held = None
        self.applied = False

    def __call__(self, who, off, data):
        if who != self.who:
            return data
        self.buf += list(data)
        out = []
        while len(self.buf) >= 5:
            ln = (int(self.buf[3]) << 8) | int(self.buf[4])
            if len(self.buf) < 5 + ln:
                break
            rec = self.buf[:5 + ln]
            del self.buf[:5 + ln]
            idx = self.n
            self.n += 1
            if self.held is not None:
                out += rec + self.held
                self.held = None
                continue
            if idx != self.k:
                out += rec
                continue
            self.applied = True
            self.rec_type = int(rec[0])
            if self.action == "drop":
                continue
            if self.action == "dup":
                out += rec + rec
            elif self.action == "swap":
                self.held = rec
            else:
                raise ValueError(self.action)
        return newbuf(out)


# ---------------------------------------------------------------------------
# TLS <= 1.2 PRFs as random functions (attacker obligations)
# ---------------------------------------------------------------------------

def _model_prf(name):
    def prf_(secret, label, seed, length):
        secret, label, seed = list(secret), list(label), list(seed)
        return apply_uf("PRF_%s_k%d_l%d" % (name, len(secret), len(label)),
                        secret + label + seed, int(length))
    return prf_


def prf_stubs():
    """mathtls.PRF / PRF_1_2 / PRF_1_2_SHA384 as uninterpreted functions of
    (secret, label, seed): C09.11 relates the real functions to RFC 5246
    P_hash; here they are random functions whose outputs (>= 12 bytes,
    the Finished length) do not collide"""
    out = []
    for mod in (mathtls, tc):
        for nm in ("PRF", "PRF_1_2", "PRF_1_2_SHA384"):
            if hasattr(mod, nm):
                out.append((mod, nm, _model_prf(nm)))
    return out


def model_powmod(base, power, modulus):
    """cryptomath.powMod: real arithmetic on concrete operands; with a
    symbolic operand (a key share rewritten in flight) the result is an
    uninterpreted function of the operands, reduced into [0, modulus)"""
    from symx.core import SymBool, sym_from_bytes
    args = (base, power, modulus)
    if not any(isinstance(x, (SymInt, SymBool)) for x in args):
        return _REAL_POWMOD(base, power, modulus)
    n = 0
    for x in args:
        if isinstance(x, SymInt):
            n = max(n, (x.w + 7) // 8)
        else:
            n = max(n, (int(x).bit_length() + 7) // 8)
    n = max(n, 1)
    buf = []
    for x in args:
        buf += list(x.to_bytes(n, "big")) if isinstance(x, SymInt) \
            else list(int(x).to_bytes(n, "big"))
    r = sym_from_bytes(apply_uf("MODEXP", buf, n))
    assume(r < modulus)
    return r


_REAL_POWMOD = cryptomath.powMod


def corrupt_finished(conn, I, mode="arbitrary"):
    """make this endpoint dishonest about its Finished: the verify_data it
    sends is an arbitrary value different from the one the real code
    computed (or a bit flip / truncation of it).  Everything else is the
    real code.  Returns a list that receives the genuine value."""
    seen = []

    def fix(msg):
        if isinstance(msg, M.Finished) and not seen:
            good = list(msg.verify_data)
            seen.append(good)
            if mode == "arbitrary":
                bad = I.bytes(len(good), "forged_finished")
                assume(NOT(seq_eq(list(bad), good)))
                msg.verify_data = newbuf(list(bad))
            elif mode == "bitflip":
                j = I.pick(list(range(0, len(good), 5)), "flip_byte")
                m = I.byte("flip_mask")
                assume(m != 0)
                bad = list(good)
                bad[j] = bad[j] ^ m
                msg.verify_data = newbuf(bad)
            elif mode == "short":
                msg.verify_data = newbuf(good[:-1])
            elif mode == "long":
                msg.verify_data = newbuf(good + [0])
            elif mode == "empty":
                msg.verify_data = newbuf([])
        return msg
    orig_send = conn._sendMsg
    orig_queue = conn._queue_message

    def send(msg, *a, **k):
        return orig_send(fix(msg), *a, **k)

    def queue(msg):
        return orig_queue(fix(msg))
    conn._sendMsg = send
    conn._queue_message = queue
    return seen
