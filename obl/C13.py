"""C13 - resumption reproduces the original session's security, or falls back
cleanly.  (The session cache itself is C18.1, which also runs under C13.)"""
from lib.framework import obligation
from symx.core import (SymInt, SymBool, SymBytes, AND, OR, NOT, IFF, IMPLIES,
                       seq_eq, assume, is_concrete_mode, ite, PathAbort,
                       Unsupported)
from models.fixtures import newbuf
from models.conn import record, split_records
from models.crypto import StubAEAD
from models.hello import (hello_proxies, hello_stubs, HELLO_ASSUMES,
                          server_conn, run_server_hello, ch_bytes,
                          std_extensions, raw_ext, settings_family, Cut,
                          RSA_CHAIN, RSA_KEY, client_conn, run_client_hello,
                          sh_bytes)

import tlslite.tlsconnection as tc
import tlslite.session as sess_mod
import tlslite.extensions as X
import tlslite.messages as M
from tlslite.session import Session, Ticket
from tlslite.constants import (ContentType, HandshakeType, ExtensionType,
                               CipherSuite, GroupName, AlertDescription,
                               AlertLevel)
from tlslite.handshakesettings import HandshakeSettings
from tlslite.errors import TLSLocalAlert


# ---------------------------------------------------------------------------
# C13.4  Session.valid()
# ---------------------------------------------------------------------------

@obligation("C13.4", lambda tier: [dict()],
            functions=["tlslite.session:Session.valid",
                       "tlslite.session:Session._setResumable"],
            assumes=["resumable flag and presence of session ID / TLS 1.3 "
                     "tickets / TLS 1.2 tickets chosen by symbolic selectors"])
def c13_4(I, shape):
    """a session is offered for resumption only while it is resumable and
    has something to resume with"""
    s = Session()
    res = I.pick([False, True], "resumable")
    sid = I.pick([bytearray(), bytearray(b"\x01" * 32)], "sessionID")
    t13 = I.pick([[], ["ticket13"]], "tickets")
    t12 = I.pick([[], ["ticket12"]], "tls_1_0_tickets")
    s.sessionID = sid
    s.resumable = res
    s.tickets = t13
    s.tls_1_0_tickets = t12
    I.check(bool(s.valid()) == (res and bool(sid or t13 or t12)),
            "valid-iff-resumable-and-has-id-or-ticket")
    s2 = Session()
    s2.sessionID = bytearray()
    s2._setResumable(True)
    I.check(not s2.resumable, "no-session-id-no-resumable-flag")


# ---------------------------------------------------------------------------
# C13.1  server: conditions for session-ID resumption
# ---------------------------------------------------------------------------

SUITE_A = CipherSuite.TLS_ECDHE_RSA_WITH_AES_128_GCM_SHA256
SUITE_B = CipherSuite.TLS_ECDHE_RSA_WITH_AES_256_GCM_SHA384
SUITE_OLD = CipherSuite.TLS_RSA_WITH_RC4_128_SHA    # not enabled by default


def _shapes_c13_1(tier):
    out = []
    for suite in ("A", "B", "OLD"):
        for offered in ("A", "AB", "B"):
            out.append(dict(session_suite=suite, offered=offered))
    return out


@obligation("C13.1", _shapes_c13_1,
            functions=["tlslite.tlsconnection:TLSConnection."
                       "_serverGetClientHello",
                       "tlslite.tlsrecordlayer:TLSRecordLayer._getMsg",
                       "tlslite.messages:ClientHello.parse"],
            assumes=HELLO_ASSUMES + [
                "session cache = mapping holding ONE session under the "
                "offered ID; its resumable flag, extended-master-secret and "
                "encrypt-then-MAC properties and server name are chosen by "
                "symbolic selectors, as are the ClientHello's EMS / EtM "
                "extensions and SNI; cipher suite of the session and the "
                "client's offer enumerated; a second selector makes the "
                "offered ID unknown to the cache"],
            patches=lambda s: (hello_proxies(), hello_stubs()),
            max_paths=20000, timeout=(400, 1200), also=("C03",))
def c13_1(I, shape):
    """the server resumes only a resumable, still-acceptable session that is
    consistent with the new ClientHello; otherwise it falls back to a full
    handshake or aborts with an alert - never an exception"""
    suites = {"A": SUITE_A, "B": SUITE_B, "OLD": SUITE_OLD}
    offered = [suites[c] for c in shape["offered"]]
    sess = Session()
    sess.sessionID = bytearray(b"\x07" * 32)
    sess.masterSecret = bytearray(48)
    sess.cipherSuite = suites[shape["session_suite"]]
    sess.resumable = I.pick([True, False], "resumable")
    sess.extendedMasterSecret = I.pick([True, False], "sess_ems")
    sess.encryptThenMAC = I.pick([False, True], "sess_etm")
    sess.serverName = I.pick(["", "a.example"], "sess_sni")
    sess.srpUsername = ""
    known = I.pick([True, False], "id_known")
    ch_ems = I.pick([True, False], "ch_ems")
    ch_etm = I.pick([False, True], "ch_etm")
    ch_sni = I.pick([None, b"a.example", b"b.example"], "ch_sni")
    cache = {}
    if known:
        cache[bytes(sess.sessionID)] = sess

    class Cache(object):
        """SessionCache contract: only live, resumable sessions come back
        (C18.1 is the obligation for SessionCache itself)"""
        def __getitem__(self, sid):
            s = cache[bytes(sid)]
            if not s.valid():
                raise KeyError(sid)
            return s

        def __setitem__(self, sid, s):
            cache[bytes(sid)] = s
    exts = std_extensions(False)
    if ch_ems:
        exts.append(raw_ext(ExtensionType.extended_master_secret, []))
    if ch_etm:
        exts.append(raw_ext(ExtensionType.encrypt_then_mac, []))
    if ch_sni:
        exts.append(X.SNIExtension().create(bytearray(ch_sni)))
    wire = record(ContentType.handshake,
                  ch_bytes((3, 3), offered, exts,
                           session_id=bytes(sess.sessionID)))
    conn = server_conn(wire)
    settings = settings_family()["default"]
    try:
        out = run_server_hello(conn, settings, RSA_CHAIN, RSA_KEY,
                               cache=Cache())
    except (PathAbort, Unsupported):
        raise
    except Exception as e:
        I.fail("resumption attempt raised %s" % type(e).__name__,
               detail=repr(e))
        return
    enabled = sess.cipherSuite in (SUITE_A, SUITE_B)
    if out["kind"] == "resumed":
        I.check(known, "resumed-session-came-from-the-cache")
        I.check(sess.resumable, "only-resumable-sessions-are-resumed")
        I.check(enabled, "session-suite-still-allowed-by-server-settings")
        I.check(sess.cipherSuite in offered,
                "session-suite-offered-by-the-client")
        I.check(sess.extendedMasterSecret == ch_ems,
                "ems-property-consistent")
        I.check((not sess.encryptThenMAC) or ch_etm,
                "etm-session-needs-etm-offer")
        I.check(ch_sni is None or
                sess.serverName == ch_sni.decode(), "server-name-consistent")
        sh = out["sent"][0]
        I.check(sh[0] == ContentType.handshake and
                sh[2][0] == HandshakeType.server_hello,
                "server-hello-sent-for-resumption")
    elif out["kind"] == "ret":
        # full handshake: the session was not usable
        usable = (known and sess.resumable and enabled and
                  sess.cipherSuite in offered and
                  sess.extendedMasterSecret == ch_ems and
                  ((not sess.encryptThenMAC) or ch_etm) and
                  (ch_sni is None or sess.serverName == ch_sni.decode()))
        I.check(not usable, "usable-session-is-resumed")
    else:
        I.check(out["kind"] == "alert", "alert-or-fallback")
        sent = out["sent"]
        I.check(len(sent) >= 1 and sent[-1][0] == ContentType.alert,
                "alert-on-the-wire")


# ---------------------------------------------------------------------------
# C13.2  TLS <= 1.2 session tickets: only current keys, only unexpired
# ---------------------------------------------------------------------------

def _ticket_stubs(clock):
    def mk_aead(key, implementations=None):
        return StubAEAD("tk" + bytes(key).hex()[:8], "aes256gcm", 12, 16)

    def derive(nonce, user_key, settings):
        # key separation per ticket key; the nonce mixing is HKDF (C09.12)
        return bytearray(user_key), bytearray(12)

    class T(object):
        @staticmethod
        def time():
            return clock[0]
    return [(tc, "createAESGCM", mk_aead),
            (tc.TLSConnection, "_derive_key_iv", staticmethod(derive)),
            (tc, "time", T)]


def _shapes_c13_2(tier):
    out = []
    for keys in ("A", "B", "BA", ""):
        for forged in (False, True):
            out.append(dict(keys=keys, forged=forged))
    return out


def _c13_2_patches(shape):
    clock = [0]
    _c13_2_patches.clock = clock
    return (hello_proxies(), hello_stubs() + _ticket_stubs(clock))


@obligation("C13.2", _shapes_c13_2,
            functions=["tlslite.tlsconnection:TLSConnection._ticket_to_session",
                       "tlslite.tlsconnection:TLSConnection._tryDecrypt",
                       "tlslite.messages:SessionTicketPayload.parse",
                       "tlslite.messages:SessionTicketPayload.write"],
            assumes=["ticket cipher = AEAD model keyed by the ticket key "
                     "(unforgeable: a tag verifies only for what was sealed "
                     "under that key); _derive_key_iv reduced to key "
                     "separation; clock and ticket creation time symbolic; "
                     "server's current ticketKeys in {[A], [B], [B, A], []}; "
                     "the honest ticket was issued under key A; 'forged' = "
                     "arbitrary symbolic ticket bytes of the same length"],
            patches=_c13_2_patches, max_paths=8000)
def c13_2(I, shape):
    """a ticket yields a session only if it was issued under one of the
    server's CURRENT ticket keys and has not expired; anything else yields
    None - never an exception"""
    clock = _c13_2_patches.clock
    keyA, keyB = bytearray(b"A" * 32), bytearray(b"B" * 32)
    keys = [{"A": keyA, "B": keyB}[c] for c in shape["keys"]]
    created = I.int_range(0, 20, "creation_time")
    now = I.int_range(0, 40, "now")
    lifetime = I.int_range(1, 10, "ticketLifetime")
    clock[0] = now
    payload = M.SessionTicketPayload().create(
        bytearray(48), (3, 3), SUITE_A, created, bytearray(b"n" * 32),
        encrypt_then_mac=True, extended_master_secret=True,
        server_name=bytearray(b"a.example"))
    pt = payload.write()
    issuer = StubAEAD("tk" + bytes(keyA).hex()[:8], "aes256gcm", 12, 16)
    sealed = issuer.seal(bytearray(12), newbuf(list(pt)), b"")
    if shape["forged"]:
        body = I.bytes(len(sealed), "forged")
    else:
        body = sealed
    ticket = newbuf(list(bytearray(b"n" * 32)) + list(body))

    class S(object):
        ticketKeys = keys
        ticketCipher = "aes256gcm"
        ticketLifetime = lifetime
        cipherImplementations = ["python"]
    conn = tc.TLSConnection(None)
    conn.version = (3, 3)
    # unforgeability: what verifies under a key was sealed under that key
    orig = tc.createAESGCM

    def guarded(key, impl=None):
        a = orig(key, impl)
        a.honest = [(w[0], w[1], w[2]) for w in issuer.seal_log] \
            if a.kn == issuer.kn else []
        return a
    tc.createAESGCM = guarded
    try:
        ext = X.SessionTicketExtension().create(ticket)
        try:
            sess = conn._ticket_to_session(S(), ext)
        except (PathAbort, Unsupported):
            raise
        except Exception as e:
            I.fail("_ticket_to_session raised %s" % type(e).__name__,
                   detail=repr(e))
            return
    finally:
        tc.createAESGCM = orig
    current = "A" in shape["keys"]
    if sess is not None:
        I.check(current, "ticket-key-is-a-current-one")
        I.check(NOT(created + lifetime < now), "ticket-not-expired")
        I.check(sess.cipherSuite == SUITE_A and sess.encryptThenMAC is True
                and sess.extendedMasterSecret is True and
                sess.serverName == "a.example" and sess.resumable,
                "session-reproduces-the-ticket-contents")
        if shape["forged"]:
            I.check(seq_eq(body, sealed), "only-the-issued-ticket-verifies")
    else:
        if not shape["forged"]:
            I.check(OR(not current, created + lifetime < now),
                    "valid-current-ticket-is-accepted")
        else:
            I.cover("forged ticket refused")


# ---------------------------------------------------------------------------
# C13.3  client: resumption is assumed only when the server confirmed it
# ---------------------------------------------------------------------------

def _shapes_c13_3(tier):
    out = []
    for how in ("session-id", "ticket"):
        for maxv in ((3, 3), (3, 4)):
            out.append(dict(how=how, maxVersion=list(maxv)))
    return out


@obligation("C13.3", _shapes_c13_3,
            functions=["tlslite.tlsconnection:TLSConnection._clientResume",
                       "tlslite.tlsconnection:TLSConnection."
                       "_handshakeClientAsyncHelper",
                       "tlslite.tlsconnection:TLSConnection."
                       "_clientSendClientHello",
                       "tlslite.tlsconnection:TLSConnection."
                       "_clientGetServerHello"],
            assumes=HELLO_ASSUMES + [
                "client holds a resumable TLS 1.2 session (by session ID or "
                "by a TLS 1.2 session ticket); the ServerHello either echoes "
                "the ClientHello's session ID or carries a fresh one "
                "(symbolic choice), same or other cipher suite; stages after "
                "the resumption decision are cut"],
            patches=lambda s: (hello_proxies(), hello_stubs()),
            max_paths=4000)
def c13_3(I, shape):
    """the client treats the handshake as resumed only if the server echoed
    the session ID it offered; a server that declines gets a full handshake,
    not an abort"""
    settings = HandshakeSettings()
    settings.maxVersion = tuple(shape["maxVersion"])
    settings.keyShares = ["secp256r1"]
    sess = Session()
    sess.masterSecret = bytearray(48)
    sess.cipherSuite = SUITE_A
    sess.resumable = True
    sess.srpUsername = None
    sess.serverName = None
    sess.extendedMasterSecret = True
    sess.encryptThenMAC = False
    if shape["how"] == "session-id":
        sess.sessionID = bytearray(b"\x09" * 32)
    else:
        sess.sessionID = bytearray()
        sess.tls_1_0_tickets = [Ticket(bytearray(b"T" * 40), 1000,
                                       bytearray(48), SUITE_A)]
    echo = I.pick([True, False], "server_echoes")
    same_suite = I.pick([True, False], "same_suite")
    decided = {}

    def server_wire(ch):
        sid = ch.session_id if echo and ch.session_id else \
            bytearray(b"\x55" * 32)
        decided["offered_sid"] = bytes(ch.session_id)
        exts = [raw_ext(ExtensionType.extended_master_secret, [])]
        return record(ContentType.handshake,
                      sh_bytes((3, 3), bytearray(32), sid,
                               SUITE_A if same_suite else SUITE_B, exts))
    conn = client_conn()

    def cut_fin(*a, **k):
        raise Cut("resumption-assumed")
        yield 0

    def cut_kx(*a, **k):
        raise Cut("full-handshake")
        yield 0
    conn._getFinished = cut_fin
    conn._clientKeyExchange = cut_kx
    conn._calcPendingStates = lambda *a: None
    # let the real _clientResume run
    real_resume = tc.TLSConnection._clientResume
    out = None
    try:
        import models.hello as H
        saved = conn.__dict__.get("_clientResume")
        out = run_client_hello(conn, settings, server_wire, session=sess,
                               cert_params=(None, None))
    except (PathAbort, Unsupported):
        raise
    except Exception as e:
        I.fail("client raised %s" % type(e).__name__, detail=repr(e))
        return
    # run_client_hello cuts at _clientResume; re-run the decision itself
    if out["kind"] != "tls12-continues":
        I.cover(out["kind"])
        return
    serverHello = out["data"]
    conn2 = conn
    import inspect
    extra = ()
    if len(inspect.signature(real_resume).parameters) > 6:
        # newer signature: the session ID offered in the ClientHello
        extra = (out["clientHello"].session_id,)
    try:
        for r in real_resume(conn2, sess, serverHello, bytearray(32), None,
                             settings.validate(), *extra):
            pass
        kind = "full-handshake"
    except Cut as c:
        kind = c.where
    except TLSLocalAlert as e:
        kind = "alert"
    confirmed = echo and bool(decided["offered_sid"])
    if kind == "resumption-assumed":
        I.check(confirmed, "resumption-assumed-only-when-server-echoed-id",
                known={"C13:client-assumes-ticket-resumption":
                       shape["how"] == "ticket"})
        I.check(same_suite, "resumed-suite-must-match-the-session")
    elif kind == "full-handshake":
        I.check(not (confirmed and same_suite) or
                shape["how"] == "ticket" and not decided["offered_sid"],
                "confirmed-resumption-is-taken")
    else:
        I.check(confirmed and not same_suite,
                "alert-only-for-inconsistent-resumption",
                known={"C13:client-assumes-ticket-resumption":
                       shape["how"] == "ticket"})


# ---------------------------------------------------------------------------
# C13.5  TLS 1.3 server: PSK / ticket selection
# ---------------------------------------------------------------------------
import sys as _sys
import tlslite.handshakehelpers as hhelp
from tlslite.errors import TLSIllegalParameterException


class _Tick(object):
    def __init__(self, version, suite, created, chain):
        self.protocol_version = version
        self.cipher_suite = suite
        self.creation_time = created
        self.client_cert_chain = chain
        self.master_secret = bytearray(48)
        self.nonce = bytearray(1)


def _shapes_c13_5(tier):
    kinds = ("garbage", "ticket", "external")
    out = []
    for k1 in kinds:
        for k2 in kinds:
            out.append(dict(ids=[k1, k2]))
    return out


@obligation("C13.5", _shapes_c13_5,
            functions=["tlslite.tlsconnection:TLSConnection."
                       "_serverTLS13Handshake"],
            assumes=["the PSK selection loop of _serverTLS13Handshake is run "
                     "with a ClientHello offering two identities, each "
                     "garbage / a decryptable ticket / an external PSK; "
                     "_tryDecrypt returns a ticket whose protocol version, "
                     "PRF hash, creation time and stored client chain are "
                     "symbolic selections; verify_binder is a recorder whose "
                     "verdict is symbolic; the clock is symbolic; the "
                     "function is cut at the first key-exchange call and the "
                     "selection state is read there"],
            patches=lambda s: (hello_proxies(), hello_stubs()),
            max_paths=20000, also=("C05",))
def c13_5(I, shape):
    """a PSK identity is selected only if its binder verified, the ticket is
    for this protocol version and PRF and has not expired; the client
    identity stored in a ticket is attributed to the peer only when that
    ticket was selected"""
    now = I.int_range(0, 40, "now")
    lifetime = I.int_range(1, 10, "ticketLifetime")
    victim_chain = object()
    idents = []
    tickets = {}
    for n, kind in enumerate(shape["ids"]):
        name = bytearray(b"id%d" % n + b"x" * 40)
        idents.append(X.PskIdentity().create(name, 0))
        if kind == "ticket":
            ver = I.pick([(3, 4), (3, 3)], "tver")
            suite = I.pick([CipherSuite.TLS_AES_128_GCM_SHA256,
                            CipherSuite.TLS_AES_256_GCM_SHA384], "tsuite")
            created = I.int_range(0, 20, "created")
            chain = I.pick([None, victim_chain], "tchain")
            tickets[bytes(name)] = _Tick(ver, suite, created, chain)
    psk_ext = X.PreSharedKeyExtension().create(
        idents, [bytearray(32) for _ in idents])
    modes = X.PskKeyExchangeModesExtension().create([1])
    ch = M.ClientHello().create((3, 3), bytearray(32), bytearray(32),
                                [CipherSuite.TLS_AES_128_GCM_SHA256],
                                extensions=std_extensions(True) +
                                [modes, psk_ext])

    class S(object):
        pass
    settings = HandshakeSettings().validate()
    settings.ticketKeys = [bytearray(32)]
    settings.ticketLifetime = lifetime
    settings.pskConfigs = [(bytearray(b"id%d" % n + b"x" * 40),
                            bytearray(b"secret"), "sha256")
                           for n, k in enumerate(shape["ids"])
                           if k == "external"]
    conn = tc.TLSConnection(None)
    conn.version = (3, 4)
    conn._handshake_hash = None
    conn._pre_client_hello_handshake_hash = None

    def try_decrypt(stg, identity=None, ticket=None):
        t = tickets.get(bytes(identity.identity))
        if t is None:
            return None, None
        prf = "sha384" if t.cipher_suite == \
            CipherSuite.TLS_AES_256_GCM_SHA384 else "sha256"
        return (identity.identity, bytearray(b"respsk"), prf), t
    conn._tryDecrypt = try_decrypt
    verified = []
    verdict = I.pick([True, False], "binder_ok")

    def verify_binder(client_hello, hashes, position, secret, prf,
                      external=True):
        verified.append((position, bytes(secret), prf, external))
        if not verdict:
            raise TLSIllegalParameterException("Binder does not verify")
        return True
    probe = {}

    def cut_kex(group, version):
        f = _sys._getframe(1)
        probe.update(selected=f.f_locals.get("selected_psk"),
                     psk=f.f_locals.get("psk"),
                     chain=f.f_locals.get("resumed_client_cert_chain"))
        raise Cut("key-exchange")
    conn._getKEX = cut_kex

    class Clock(object):
        @staticmethod
        def time():
            return now
    saved = (hhelp.HandshakeHelpers.verify_binder, tc.time)
    hhelp.HandshakeHelpers.verify_binder = staticmethod(verify_binder)
    tc.time = Clock
    conn.sock = type("S", (), {"flush": lambda self: None,
                               "buffer_writes": False})()
    sent = []
    conn._sendMsg = lambda m, *a, **k: iter(sent.append(m) or ())
    conn._shutdown = lambda r: None
    try:
        try:
            for r in conn._serverTLS13Handshake(
                    settings, ch, CipherSuite.TLS_AES_128_GCM_SHA256,
                    RSA_KEY, RSA_CHAIN, (3, 4), "rsa_pss_rsae_sha256", None,
                    False, None, None):
                pass
            I.fail("handshake-ran-past-the-cut")
            return
        except Cut:
            kind = "selected-or-not"
        except TLSLocalAlert as e:
            kind = "alert"
            alert = e
        except (PathAbort, Unsupported):
            raise
        except Exception as e:
            I.fail("PSK selection raised %s" % type(e).__name__,
                   detail=repr(e))
            return
    finally:
        hhelp.HandshakeHelpers.verify_binder = saved[0]
        tc.time = saved[1]
    if kind == "alert":
        I.check(len(verified) == 1 and not verdict and bool(
            alert.description == AlertDescription.illegal_parameter),
            "alert-only-for-a-failed-binder")
        return
    sel = probe["selected"]
    if sel is None:
        I.check(probe["psk"] is None, "no-psk-without-selection")
        I.check(probe["chain"] is None,
                "no-client-identity-without-a-selected-ticket")
        I.check(verified == [], "no-binder-check-without-selection")
        return
    kind_sel = shape["ids"][sel]
    I.check(kind_sel != "garbage", "garbage-identity-never-selected")
    I.check(verified == [(sel, bytes(probe["psk"]), "sha256",
                          kind_sel == "external")] and verdict,
            "selected-identity-had-its-own-binder-verified")
    if kind_sel == "ticket":
        t = tickets[bytes(idents[sel].identity)]
        I.check(t.protocol_version == (3, 4), "ticket-for-this-version")
        I.check(t.cipher_suite == CipherSuite.TLS_AES_128_GCM_SHA256,
                "ticket-prf-matches-the-suite")
        I.check(NOT(t.creation_time + lifetime < now),
                "expired-ticket-never-selected")
        I.check(probe["chain"] is t.client_cert_chain,
                "client-identity-is-the-selected-tickets")
    else:
        I.check(probe["chain"] is None,
                "external-psk-carries-no-client-identity")
    # earlier identities were skipped for a reason
    for j in range(sel):
        kj = shape["ids"][j]
        if kj == "ticket":
            tj = tickets[bytes(idents[j].identity)]
            I.check(tj.protocol_version != (3, 4) or tj.cipher_suite !=
                    CipherSuite.TLS_AES_128_GCM_SHA256 or
                    bool(tj.creation_time + lifetime < now),
                    "usable-earlier-ticket-not-skipped")


# ---------------------------------------------------------------------------
# C13.6  TLS 1.3 ticket resumption between two live endpoints
# ---------------------------------------------------------------------------
from models import pair as P
from models.hashmodel import SIZES as HSIZES

PAIR_RND13 = P.RandomSource(None)
PAIR_RND13C = P.RandomSource(None, concrete=True)


class Clock(object):
    """stands for the module `time` inside tlsconnection / tlsrecordlayer"""

    def __init__(self):
        self.now = 1700000000.0

    def time(self):
        return self.now


CLOCK = Clock()


def _rnd13(shape):
    """symbolic randoms, except where a ticket byte is enumerated (fixed
    randoms keep each of those paths cheap)"""
    return PAIR_RND13C if shape.get("second") == "ticket-byte" \
        else PAIR_RND13


def _pair_patches13(shape):
    rnd = _rnd13(shape)
    P.ModelKEX.rnd = rnd
    import tlslite.tlsrecordlayer as trl_
    st = P.pair12_stubs(rnd)
    st += [(tc, "time", CLOCK), (trl_, "time", CLOCK),
           (tc, "getRandomNumber", lambda lo, hi: 1234),
           (tc, "createAESGCM", P._mk_aead("aes%dgcm")),
           (tc, "createCHACHA20", P._mk_aead("chacha20-poly1305")),
           (tc, "createAESCCM", P._mk_aead("aes%dccm")),
           (tc, "createAESCCM_8", P._mk_aead("aes%dccm_8"))]
    return (P.pair_proxies(), st)


def _shapes_c13_6(tier):
    out = []
    for auth in ("cert", "cert+client"):
        for second in ("honest", "rotated", "rotated-kept",
                       "other-suite", "client-expired", "psk-ke-only"):
            out.append(dict(auth=auth, second=second))
        nch, step = (8, 7) if tier == "quick" else (32, 1)
        for k in range(nch):
            out.append(dict(auth=auth, second="ticket-byte", chunk=k,
                            chunks=nch, step=step))
    return out


@obligation("C13.6", _shapes_c13_6,
            functions=["tlslite.tlsconnection:TLSConnection."
                       "_serverSendTickets",
                       "tlslite.tlsconnection:TLSConnection._tryDecrypt",
                       "tlslite.tlsconnection:TLSConnection._derive_key_iv",
                       "tlslite.tlsconnection:TLSConnection."
                       "_serverTLS13Handshake",
                       "tlslite.tlsconnection:TLSConnection."
                       "_clientTLS13Handshake",
                       "tlslite.tlsconnection:TLSConnection."
                       "_clientSendClientHello",
                       "tlslite.tlsrecordlayer:TLSRecordLayer.readAsync",
                       "tlslite.handshakehelpers:HandshakeHelpers."
                       "calc_res_binder_psk",
                       "tlslite.handshakehelpers:HandshakeHelpers."
                       "update_binders",
                       "tlslite.handshakehelpers:HandshakeHelpers."
                       "verify_binder",
                       "tlslite.messages:SessionTicketPayload",
                       "tlslite.messages:NewSessionTicket"],
            assumes=P.PAIR_ASSUMES + [
                "two consecutive connections between one client and one "
                "server configuration; ticket encryption through the AEAD "
                "model (ciphertext integrity assumed); the clock is a stub "
                "(fixed instant, advanced only in the client-expired "
                "shape); ticket_age_add fixed; one ticket per connection",
                "second connection: honest | one symbolic byte of the stored "
                "ticket rewritten | server ticket key rotated (old key "
                "dropped / kept as second) | client offers a suite with "
                "another hash | client-side expiry | server allows psk_ke "
                "only while the client offers psk_dhe_ke"],
            patches=_pair_patches13, max_paths=600, timeout=(600, 1800),
            also=("C03", "C09"))
def c13_6(I, shape):
    """a TLS 1.3 ticket resumes exactly when it is intact, issued under a
    current key and compatible with the new hello; the resumed connection
    derives its keys from the resumption PSK of the first one and keeps the
    suite and the authenticated client identity; otherwise a full handshake
    completes"""
    from symx.uf import assume_collision_free
    auth, second = shape["auth"], shape["second"]
    CLOCK.now = 1700000000.0
    key1 = bytearray(b"K" * 32)
    key2 = bytearray(b"R" * 32)
    cset = P.settings13()
    sset = P.settings13(ticketKeys=[key1], ticket_count=1)
    client_auth = auth == "cert+client"
    sc = P.Scenario(I, _rnd13(shape), cset, sset, server_cred="rsa",
                    client_cred="ecdsa" if client_auth else None,
                    req_cert=client_auth, intctxt=True)
    sc.run()
    I.check(sc.both_completed(), "first-handshake-completes",
            detail=lambda: dict(c=repr(sc.cep.error), s=repr(sc.sep.error),
                                crash=sc.cep.crash or sc.sep.crash))
    if not sc.both_completed():
        return
    c1, s1 = sc.c, sc.s
    # the client picks up the ticket
    for r in c1.readAsync(max=1, min=0):
        if r in (0, 1) and isinstance(r, int):
            break
    sess = c1.session
    I.check(len(sess.tickets) == 1, "client-holds-one-ticket",
            detail=lambda: dict(n=len(sess.tickets)))
    if len(sess.tickets) != 1:
        return
    view1 = P.WireView(sc.wire)
    alg, n = "sha256", 32
    ref1 = P.Schedule13(alg, None, P.ModelKEX.log[0][3], view1)
    I.check(seq_eq(list(sess.resumptionMasterSecret), ref1.res),
            "first-resumption-master-secret-is-rfc8446-value")
    nst = sess.tickets[0]
    psk_ref = P.hkdf_expand_label(alg, ref1.res, b"resumption",
                                  list(nst.ticket_nonce), n)
    # ---- second connection ----
    expect_resume = second in ("honest", "rotated-kept")
    cset2 = P.settings13()
    sset2 = P.settings13(ticketKeys=[key1], ticket_count=1)
    if second == "ticket-byte":
        cands = list(range(0, len(nst.ticket), shape.get("step", 7)))[
            shape["chunk"]::shape.get("chunks", 8)]
        pos = I.pick(cands, "ticket_pos")
        v = I.byte("ticket_v")
        t = newbuf(list(nst.ticket))
        assume(v != t[pos])
        t[pos] = v
        nst.ticket = t
    elif second == "rotated":
        sset2.ticketKeys = [key2]
    elif second == "rotated-kept":
        sset2.ticketKeys = [key2, key1]
    elif second == "other-suite":
        cset2 = P.settings13("aes256gcm")
        sset2 = P.settings13("aes256gcm", ticketKeys=[key1], ticket_count=1)
    elif second == "client-expired":
        CLOCK.now += nst.ticket_lifetime + 1
    elif second == "psk-ke-only":
        cset2.psk_modes = ["psk_dhe_ke"]
        sset2.psk_modes = ["psk_ke"]
    ndh = len(P.ModelKEX.log)
    sc2 = P.Scenario(I, _rnd13(shape), cset2, sset2, server_cred="rsa",
                     client_cred="ecdsa" if client_auth else None,
                     req_cert=client_auth, intctxt=True, reset=False)
    sc2.client_kwargs["session"] = sess
    sc2.run()
    for ep, nm in ((sc2.cep, "client"), (sc2.sep, "server")):
        I.check(ep.crash is None, "no-raw-exception-from-the-handshake",
                detail=lambda: dict(side=nm, tb=ep.crash))
    assume_collision_free(["HASH_", "HMAC_"], ("HMAC_",), trunc=16)
    if second == "psk-ke-only" and not sc2.both_completed():
        # a valid ticket whose only common PSK mode is missing: tlslite-ng
        # answers handshake_failure instead of a certificate handshake
        # (RFC 8446 4.2.11 "SHOULD perform a non-PSK handshake"); the
        # property sentence does not cover configuration mismatches, so only
        # a clean refusal on both sides is required here
        I.check(not sc2.completed(sc2.cep) and not sc2.completed(sc2.sep),
                "a-refused-resumption-fails-on-both-sides")
        I.cover("psk-mode-mismatch-refused")
        return
    I.check(sc2.both_completed(),
            "second-connection-completes-resumed-or-full",
            detail=lambda: dict(c=repr(sc2.cep.error), s=repr(sc2.sep.error)))
    if not sc2.both_completed():
        return
    c2, s2 = sc2.c, sc2.s
    view2 = P.WireView(sc2.wire)
    sh = [b for w, t, b in view2.msgs if w == "s" and
          t == HandshakeType.server_hello][0]
    import tlslite.messages as M_
    from tlslite.utils.codec import Parser as Parser_
    shm = M_.ServerHello().parse(Parser_(newbuf(sh[1:])))
    selected = shm.getExtension(ExtensionType.pre_shared_key) is not None
    I.check(selected == expect_resume, "psk-selected-exactly-when-expected",
            detail=lambda: dict(selected=selected, second=second))
    I.check(c2.resumed == selected, "client-resumed-flag-matches-the-wire")
    alg2 = "sha384" if second == "other-suite" else "sha256"
    shared2 = P.ModelKEX.log[ndh][3] if len(P.ModelKEX.log) > ndh else None
    ref2 = P.Schedule13(alg2, psk_ref if selected else None, shared2, view2)
    for name, attr, want in (
            ("client-app-traffic-secret", "cl_app_secret", ref2.c_ap),
            ("server-app-traffic-secret", "sr_app_secret", ref2.s_ap),
            ("exporter-master-secret", "exporterMasterSecret", ref2.exp),
            ("resumption-master-secret", "resumptionMasterSecret", ref2.res)):
        a = list(getattr(c2.session, attr))
        b = list(getattr(s2.session, attr))
        I.check(len(a) == len(b) and seq_eq(a, b), "second-" + name +
                "-agreed")
        I.check(len(a) == len(want) and seq_eq(a, want),
                "second-" + name + "-is-rfc8446-value-over-resumption-psk")
    I.check(c2.session.cipherSuite == s2.session.cipherSuite,
            "second-suite-agreed")
    if selected:
        I.check(c2.session.cipherSuite == sess.cipherSuite,
                "resumed-connection-keeps-the-suite")
        certs = [t for w, t, b in view2.msgs
                 if t == HandshakeType.certificate]
        I.check(certs == [], "no-certificate-in-a-resumed-handshake")
        if client_auth:
            I.check(s2.session.clientCertChain is not None and
                    P.fp(s2.session.clientCertChain) == P.fp(sc.cli_chain),
                    "resumed-connection-keeps-the-client-identity")
        else:
            I.check(s2.session.clientCertChain is None,
                    "no-client-identity-invented")
    else:
        I.check(P.fp(c2.session.serverCertChain) == P.fp(sc.srv_chain),
                "full-handshake-authenticated-the-server-again")


# ---------------------------------------------------------------------------
# C13.7  TLS <= 1.2 resumption (session ID / session ticket) between two live
#        endpoints
# ---------------------------------------------------------------------------
from tlslite.sessioncache import SessionCache


def _pair_patches13c(shape):
    P.ModelKEX.rnd = PAIR_RND13C
    import tlslite.tlsrecordlayer as trl_
    st = P.pair12_stubs(PAIR_RND13C)
    st += [(tc, "time", CLOCK), (trl_, "time", CLOCK),
           (tc, "getRandomNumber", lambda lo, hi: 1234),
           (tc, "createAESGCM", P._mk_aead("aes%dgcm")),
           (tc, "createCHACHA20", P._mk_aead("chacha20-poly1305")),
           (tc, "createAESCCM", P._mk_aead("aes%dccm")),
           (tc, "createAESCCM_8", P._mk_aead("aes%dccm_8"))]
    return (P.pair_proxies(), st)


def _shapes_c13_7(tier):
    out = []
    for how in ("id", "ticket"):
        for version in ((3, 3), (3, 1)):
            for second in ("honest", "unknown", "other-suite", "ems-dropped",
                           "etm-dropped", "sni-changed", "ticket-byte",
                           "rotated"):
                if how == "id" and second in ("ticket-byte", "rotated"):
                    continue
                if version == (3, 1) and second not in ("honest", "unknown",
                                                        "ticket-byte"):
                    continue
                d = dict(how=how, version=list(version), second=second)
                if second == "ticket-byte" and tier != "quick":
                    d["step"] = 2
                out.append(d)
    # with an authenticated client: the resumed connection keeps its identity
    for how in ("id", "ticket"):
        out.append(dict(how=how, version=[3, 3], second="honest",
                        client_auth=True))
    return out


@obligation("C13.7", _shapes_c13_7,
            functions=["tlslite.tlsconnection:TLSConnection."
                       "_serverGetClientHello",
                       "tlslite.tlsconnection:TLSConnection._clientResume",
                       "tlslite.tlsconnection:TLSConnection."
                       "_clientGetServerHello",
                       "tlslite.tlsconnection:TLSConnection."
                       "_ticket_to_session",
                       "tlslite.tlsconnection:TLSConnection."
                       "_serverSendTickets",
                       "tlslite.tlsconnection:TLSConnection._getFinished",
                       "tlslite.tlsconnection:TLSConnection._sendFinished",
                       "tlslite.sessioncache:SessionCache.__getitem__",
                       "tlslite.sessioncache:SessionCache.__setitem__"],
            assumes=P.PAIR_ASSUMES + [
                "fixed randoms and session ids (a symbolic session id would "
                "be concretised by the session cache's dictionary)",
                "two consecutive connections, ECDHE_RSA with AES-128-CBC-SHA "
                "(EtM and EMS on) between one client and one server "
                "configuration; server: real SessionCache or ticket keys; "
                "second connection: honest | session id / ticket unknown to "
                "the server | client offers another suite only | client "
                "drops extended_master_secret | client drops "
                "encrypt_then_mac | other server name | one symbolic ticket "
                "byte rewritten | ticket key rotated"],
            patches=_pair_patches13c, max_paths=600, timeout=(600, 1800),
            also=("C03",))
def c13_7(I, shape):
    """a TLS <= 1.2 session resumes only when the ClientHello is consistent
    with it; the resumed connection has the original master secret, suite,
    EMS and EtM properties; anything else ends in a full handshake or a
    clean alert - never in a resumed connection with weaker properties"""
    version = tuple(shape["version"])
    how, second = shape["how"], shape["second"]
    CLOCK.now = 1700000000.0
    key1, key2 = bytearray(b"K" * 32), bytearray(b"R" * 32)

    def mk(cipher="aes128", **kw):
        return P.settings12(version, "ecdhe_rsa", cipher, "sha", **kw)
    cache = SessionCache() if how == "id" else None
    tk = dict(ticketKeys=[key1], ticket_count=1) if how == "ticket" else {}
    cauth = bool(shape.get("client_auth"))
    sc = P.Scenario(I, PAIR_RND13C, mk(), mk(**tk), server_cred="rsa",
                    client_cred="ecdsa" if cauth else None, req_cert=cauth,
                    intctxt=True)
    sc.server_kwargs["sessionCache"] = cache
    sc.client_kwargs["serverName"] = "host.example"
    sc.run()
    I.check(sc.both_completed(), "first-handshake-completes",
            detail=lambda: dict(c=repr(sc.cep.error), s=repr(sc.sep.error),
                                crash=sc.cep.crash or sc.sep.crash))
    if not sc.both_completed():
        return
    sess = sc.c.session
    ms1 = list(sess.masterSecret)
    I.check(seq_eq(ms1, list(sc.s.session.masterSecret)),
            "first-master-secret-agreed")
    if how == "ticket":
        I.check(len(sess.tls_1_0_tickets) == 1, "client-holds-one-ticket")
        if len(sess.tls_1_0_tickets) != 1:
            return
    else:
        I.check(len(sess.sessionID) > 0, "client-holds-a-session-id")
    ems1, etm1, suite1 = sess.extendedMasterSecret, sess.encryptThenMAC, \
        sess.cipherSuite
    I.check(ems1 and etm1, "first-connection-negotiated-ems-and-etm")
    expect_resume = second == "honest"
    cset2, sset2 = mk(), mk(**tk)
    sname2 = "host.example"
    if second == "unknown":
        if how == "id":
            cache = SessionCache()
        else:
            sset2.ticketKeys = [key2]
    elif second == "rotated":
        sset2.ticketKeys = [key2, key1]
        expect_resume = True
    elif second == "other-suite":
        cset2 = mk("aes256")
        sset2 = P.settings12(version, "ecdhe_rsa", "aes128", "sha", **tk)
        sset2.cipherNames = ["aes128", "aes256"]
    elif second == "ems-dropped":
        cset2.useExtendedMasterSecret = False
        cset2.requireExtendedMasterSecret = False
    elif second == "etm-dropped":
        cset2.useEncryptThenMAC = False
    elif second == "sni-changed":
        sname2 = "other.example"
    elif second == "ticket-byte":
        tkt = sess.tls_1_0_tickets[0]
        pos = I.pick(list(range(0, len(tkt.ticket), shape.get("step", 9))),
                     "ticket_pos")
        v = I.byte("ticket_v")
        t = newbuf(list(tkt.ticket))
        assume(v != t[pos])
        t[pos] = v
        tkt.ticket = t
    sc2 = P.Scenario(I, PAIR_RND13C, cset2, sset2, server_cred="rsa",
                     client_cred="ecdsa" if cauth else None, req_cert=cauth,
                     intctxt=True, reset=False)
    sc2.server_kwargs["sessionCache"] = cache
    sc2.client_kwargs["serverName"] = sname2
    sc2.client_kwargs["session"] = sess
    sc2.run()
    from symx.uf import assume_collision_free
    assume_collision_free(["HASH_", "HMAC_"], ("HMAC_",), trunc=16)
    if isinstance(sc2.cep.error, ValueError) and \
            not any(w == "c" for w, d in sc2.wire.log):
        # handshakeClientCert() refuses a session that does not fit its own
        # arguments before anything is sent (documented ValueError)
        I.check(second in ("other-suite", "sni-changed"),
                "client-api-refuses-only-inconsistent-sessions")
        I.cover("client-api-refused")
        return
    for ep, nm in ((sc2.cep, "client"), (sc2.sep, "server")):
        I.check(ep.crash is None, "no-raw-exception-from-the-handshake",
                detail=lambda: dict(side=nm, tb=ep.crash))
    c2, s2 = sc2.c, sc2.s
    if not sc2.both_completed():
        # a clean refusal is allowed only where the RFCs demand an alert
        I.check(second in ("ems-dropped", "etm-dropped", "sni-changed",
                           "other-suite"),
                "second-connection-completes-resumed-or-full",
                detail=lambda: dict(c=repr(sc2.cep.error),
                                    s=repr(sc2.sep.error)))
        I.check(not sc2.completed(sc2.cep) and not sc2.completed(sc2.sep),
                "a-refused-resumption-fails-on-both-sides")
        return
    view2 = P.WireView12(sc2.wire)
    full = any(t == HandshakeType.server_hello_done
               for w, t, b in view2.msgs)
    I.check(c2.resumed == s2.resumed == (not full),
            "resumed-flags-match-the-wire")
    I.check((not full) == expect_resume or not expect_resume,
            "resumed-when-expected",
            detail=lambda: dict(full=full, second=second))
    if not expect_resume:
        I.check(full, "inconsistent-hello-never-resumes",
                detail=lambda: dict(second=second))
    ms2c, ms2s = list(c2.session.masterSecret), list(s2.session.masterSecret)
    I.check(seq_eq(ms2c, ms2s), "second-master-secret-agreed")
    if not full:
        I.check(seq_eq(ms2c, ms1), "resumed-master-secret-is-the-original")
        I.check(c2.session.cipherSuite == s2.session.cipherSuite == suite1,
                "resumed-suite-is-the-original")
        I.check(c2.session.extendedMasterSecret ==
                s2.session.extendedMasterSecret == ems1,
                "resumed-ems-is-the-original",
                detail=lambda: dict(c=c2.session.extendedMasterSecret,
                                    s=s2.session.extendedMasterSecret,
                                    first=ems1))
        I.check(c2._recordLayer.encryptThenMAC ==
                s2._recordLayer.encryptThenMAC == etm1,
                "resumed-etm-is-the-original")
        I.check(s2.session.serverName == "host.example",
                "resumed-server-name-is-the-original")
        if cauth:
            I.check(s2.session.clientCertChain is not None and
                    P.fp(s2.session.clientCertChain) == P.fp(sc.cli_chain),
                    "resumed-connection-keeps-the-client-identity")
    for src, dst, msg in ((c2, s2, b"ping"), (s2, c2, b"pong!")):
        for r in src.writeAsync(bytearray(msg)):
            pass
        got = None
        for r in dst.readAsync(max=16, min=len(msg)):
            if r in (0, 1) and isinstance(r, int):
                break
            got = r
        I.check(got is not None and bytes(got) == msg,
                "application-data-delivered-intact",
                detail=lambda: dict(got=repr(got)))


# ---------------------------------------------------------------------------
# C13.8  a fatal error invalidates the session for every later attempt
# ---------------------------------------------------------------------------
import copy as _copy


def _shapes_c13_8(tier):
    out = []
    for how in ("id", "ticket12", "ticket13"):
        for when in ("first", "resumed"):
            out.append(dict(how=how, when=when))
    return out


def _break_connection(I, sender, receiver):
    """one record from sender with a corrupted integrity value: the receiver
    fails with a fatal alert, the sender reads that alert"""
    sock = sender.sock.socket
    wire = sock.wire
    old = wire.mitm
    hit = []

    def mitm(who, off, data):
        if who == sock.who and not hit:
            data = newbuf(list(data))
            data[len(data) - 1] = data[len(data) - 1] ^ 0x01
            hit.append(1)
        return data
    wire.mitm = mitm
    for r in sender.writeAsync(bytearray(b"data")):
        pass
    wire.mitm = old
    err = []
    for conn in (receiver, sender):
        try:
            for r in conn.readAsync(max=8, min=1):
                if r in (0, 1) and isinstance(r, int):
                    break
        except Exception as e:
            err.append(e)
    return err


@obligation("C13.8", _shapes_c13_8,
            functions=["tlslite.tlsrecordlayer:TLSRecordLayer._shutdown",
                       "tlslite.tlsrecordlayer:TLSRecordLayer._sendError",
                       "tlslite.session:Session.valid",
                       "tlslite.session:Session._setResumable",
                       "tlslite.sessioncache:SessionCache.__getitem__",
                       "tlslite.tlsconnection:TLSConnection."
                       "_serverGetClientHello",
                       "tlslite.tlsconnection:TLSConnection."
                       "_clientSendClientHello"],
            assumes=P.PAIR_ASSUMES + [
                "history: full handshake, (optionally a resumed connection,) "
                "a record with a corrupted integrity value on the last "
                "connection -> fatal alert on both sides, then a new attempt "
                "(a) by the same client with the same Session object and (b) "
                "by a client that kept a copy of the session state from "
                "before the error; fixed randoms, stub clock"],
            patches=_pair_patches13c, max_paths=200, timeout=(600, 1800),
            also=("C17",))
def c13_8(I, shape):
    """after a fatal alert neither side resumes that session again: the
    client no longer offers it, and a server with a session cache answers an
    offer of its id with a full handshake"""
    how, when = shape["how"], shape["when"]
    CLOCK.now = 1700000000.0
    key1 = bytearray(b"K" * 32)
    tls13 = how == "ticket13"

    def mk(**kw):
        if tls13:
            return P.settings13(**kw)
        return P.settings12((3, 3), "ecdhe_rsa", "aes128gcm", **kw)
    tk = dict(ticketKeys=[key1], ticket_count=1) if how != "id" else {}
    cache = SessionCache() if how == "id" else None

    def connect(session, reset):
        sc = P.Scenario(I, PAIR_RND13C, mk(), mk(**tk), server_cred="rsa",
                        intctxt=True, reset=reset)
        sc.server_kwargs["sessionCache"] = cache
        if session is not None:
            sc.client_kwargs["session"] = session
        sc.run()
        return sc
    sc1 = connect(None, True)
    I.check(sc1.both_completed(), "first-handshake-completes",
            detail=lambda: dict(c=repr(sc1.cep.error), s=repr(sc1.sep.error),
                                crash=sc1.cep.crash or sc1.sep.crash))
    if not sc1.both_completed():
        return
    if tls13:
        for r in sc1.c.readAsync(max=1, min=0):
            if r in (0, 1) and isinstance(r, int):
                break
    sess = sc1.c.session
    last = sc1
    if when == "resumed":
        sc2 = connect(sess, False)
        I.check(sc2.both_completed() and sc2.c.resumed,
                "second-connection-resumes",
                detail=lambda: dict(c=repr(sc2.cep.error),
                                    s=repr(sc2.sep.error)))
        if not (sc2.both_completed() and sc2.c.resumed):
            return
        if tls13:
            for r in sc2.c.readAsync(max=1, min=0):
                if r in (0, 1) and isinstance(r, int):
                    break
        last = sc2
    kept = _copy.copy(last.c.session)
    kept.tickets = list(getattr(last.c.session, "tickets", None) or [])
    kept.tls_1_0_tickets = list(
        getattr(last.c.session, "tls_1_0_tickets", None) or [])
    errs = _break_connection(I, last.c, last.s)
    I.check(len(errs) == 2, "both-sides-saw-a-fatal-error",
            detail=lambda: dict(errs=[repr(e) for e in errs]))
    I.check(not last.c.session.valid() if last.c.session else True,
            "client-session-no-longer-valid-after-a-fatal-alert")
    I.check(last.s.session is None or not last.s.session.resumable,
            "server-session-not-resumable-after-a-fatal-alert")
    # (a) the same client tries again with the same object
    sc3 = connect(last.c.session, False)
    I.check(sc3.both_completed(), "next-attempt-completes",
            detail=lambda: dict(c=repr(sc3.cep.error), s=repr(sc3.sep.error),
                                crash=sc3.cep.crash or sc3.sep.crash))
    if sc3.both_completed():
        I.check(not sc3.c.resumed and not sc3.s.resumed,
                "invalidated-session-not-resumed-by-its-client")
    # (b) a client that kept the state from before the error (id cache only:
    # a stateless ticket server cannot revoke)
    if how == "id":
        sc4 = connect(kept, False)
        I.check(sc4.both_completed(), "attempt-with-kept-state-completes",
                detail=lambda: dict(c=repr(sc4.cep.error),
                                    s=repr(sc4.sep.error)))
        if sc4.both_completed():
            I.check(not sc4.s.resumed and not sc4.c.resumed,
                    "server-cache-does-not-resume-an-invalidated-session")
