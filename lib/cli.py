"""command line front end: ./check <property> [--tier t] [--only ids] [--replay f]"""
import argparse
import glob
import importlib
import json
import os
import sys

VERIF = os.path.dirname(os.path.dirname(os.path.abspath(__file__)))
sys.path.insert(0, VERIF)
# analyse /repo's working tree, whatever is installed in the venv
sys.path.insert(0, os.environ.get("VERIF_REPO", "/repo"))

from lib import framework  # noqa: E402


def modules_for(prop):
    """all obligation modules are imported (an obligation may serve several
    properties through ``also``); returns [] when nothing serves prop"""
    out = []
    for p in sorted(glob.glob(os.path.join(VERIF, "obl", "C*.py"))):
        out.append("obl." + os.path.basename(p)[:-3])
    if not glob.glob(os.path.join(VERIF, "obl", prop + "*.py")):
        return []
    return out


def main():
    ap = argparse.ArgumentParser()
    ap.add_argument("prop")
    ap.add_argument("--tier", default=os.environ.get("VERIF_TIER", "quick"),
                    choices=["quick", "thorough"])
    ap.add_argument("--only", default=None)
    ap.add_argument("--replay", default=None)
    ap.add_argument("--jobs", type=int, default=None)
    ap.add_argument("-v", "--verbose", action="store_true")
    a = ap.parse_args()
    seed = int(os.environ.get("VERIF_SEED", "0") or 0)
    mods = modules_for(a.prop)
    if not mods:
        print("no obligations registered for %s" % a.prop)
        return 2
    if a.replay:
        for m in mods:
            importlib.import_module(m)
        with open(a.replay) as f:
            rec = json.load(f)
        obl = framework.REGISTRY[rec["obligation"]]
        out = framework.replay_native(obl, rec["shape"], rec["inputs"], None,
                                      uf_table=(rec.get("native") or
                                                {}).get("uf_table"))
        print(json.dumps(out, indent=1, default=repr))
        if out["reproduced"]:
            print("VIOLATION property=%s replay=%s" % (a.prop, a.replay))
            return 1
        return 0
    only = a.only.split(",") if a.only else None
    code, lines = framework.run_property(a.prop, a.tier, seed, only, a.jobs,
                                         a.verbose, mods)
    for ln in lines:
        print(ln)
    return code


if __name__ == "__main__":
    sys.exit(main())
